//! E3 - real `rnacos-real` processes on loopback (the shipped main.rs: HTTP, gRPC, console, Raft
//! network). Nemesis: kill -9, SIGSTOP / SIGCONT, restart - always by the pid the run owns.

use serde_json::Value;
use std::collections::BTreeMap;
use std::net::TcpListener;
use std::path::{Path, PathBuf};
use std::process::{Child, Command, Stdio};
use std::time::{Duration, Instant};

pub struct NodeProc {
    pub id: u64,
    pub http: u16,
    pub grpc: u16,
    pub console: u16,
    pub dir: PathBuf,
    pub child: Option<Child>,
    pub stopped: bool,
    pub log: PathBuf,
    pub starts: u32,
}

pub struct Cluster {
    pub nodes: Vec<NodeProc>,
    pub work: PathBuf,
    pub env: BTreeMap<String, String>,
    /// extra environment of single nodes (index -> vars), applied after `env`
    pub node_env: BTreeMap<usize, BTreeMap<String, String>>,
    /// data ids of the sentinel writes issued so far (each nudge is a publish to a fresh key, so that every
    /// log entry of the tail is observable afterwards)
    pub nudges: Vec<String>,
    /// sentinel keys whose publish was answered with an error (or not at all)
    pub nudges_refused: std::collections::BTreeSet<String>,
    pub client: reqwest::blocking::Client,
}

fn port_free(p: u16) -> bool {
    TcpListener::bind(("127.0.0.1", p)).is_ok()
}

static NEXT_PORT: std::sync::Mutex<u16> = std::sync::Mutex::new(0);

/// three consecutive free ports, never handed out twice by this process (a process-wide cursor that
/// starts in a pid-derived block; the TOCTOU window between probing and the server's bind is covered by
/// the start-up retry of the callers)
pub fn pick_ports(_salt: u64) -> Option<(u16, u16, u16)> {
    let mut cur = NEXT_PORT.lock().unwrap();
    if *cur == 0 {
        // below the kernel's ephemeral range (32768..60999): a port of a node that is down for a while must not
        // be handed to an outgoing connection in the meantime
        *cur = 10_000 + ((std::process::id() % 22) as u16) * 1_000;
    }
    for _ in 0..2000 {
        let base = *cur;
        *cur = if base > 32_000 { 10_000 } else { base + 3 };
        if port_free(base) && port_free(base + 1) && port_free(base + 2) {
            return Some((base, base + 1, base + 2));
        }
    }
    None
}

pub fn server_binary() -> PathBuf {
    if let Ok(p) = std::env::var("RNV_SERVER_BIN") {
        return PathBuf::from(p);
    }
    let exe = std::env::current_exe().unwrap_or_default();
    exe.parent().map(|p| p.join("rnacos-real")).unwrap_or_else(|| PathBuf::from("/verif/target/debug/rnacos-real"))
}

impl Cluster {
    /// allocate n nodes (not started)
    pub fn new(work: &Path, tag: &str, n: usize, salt: u64, env: BTreeMap<String, String>) -> Result<Cluster, String> {
        let root = work.join(tag);
        std::fs::remove_dir_all(&root).ok();
        std::fs::create_dir_all(&root).map_err(|e| e.to_string())?;
        let mut nodes = vec![];
        let mut s = salt;
        for i in 0..n {
            let mut got = None;
            for _ in 0..50 {
                s = s.wrapping_mul(6364136223846793005).wrapping_add(1442695040888963407);
                if let Some(p) = pick_ports(s >> 16) {
                    // not already taken by a sibling of this cluster
                    if !nodes.iter().any(|n: &NodeProc| n.http == p.0) {
                        got = Some(p);
                        break;
                    }
                }
            }
            let (http, grpc, console) = got.ok_or("no free ports")?;
            let dir = root.join(format!("node{}", i + 1));
            std::fs::create_dir_all(&dir).map_err(|e| e.to_string())?;
            nodes.push(NodeProc {
                id: (i + 1) as u64,
                http,
                grpc,
                console,
                dir: dir.clone(),
                child: None,
                stopped: false,
                log: root.join(format!("node{}.log", i + 1)),
                starts: 0,
            });
        }
        let client = reqwest::blocking::Client::builder()
            .timeout(Duration::from_secs(8))
            .connect_timeout(Duration::from_secs(2))
            .pool_max_idle_per_host(0)
            .build()
            .map_err(|e| e.to_string())?;
        Ok(Cluster {
            nodes,
            work: root,
            env,
            node_env: BTreeMap::new(),
            nudges: vec![],
            nudges_refused: Default::default(),
            client,
        })
    }

    pub fn start_node(&mut self, i: usize) -> Result<(), String> {
        let join = if i == 0 { String::new() } else { format!("127.0.0.1:{}", self.nodes[0].grpc) };
        let n = &mut self.nodes[i];
        if n.child.is_some() {
            return Ok(());
        }
        let log = std::fs::OpenOptions::new().create(true).append(true).open(&n.log).map_err(|e| e.to_string())?;
        let log2 = log.try_clone().map_err(|e| e.to_string())?;
        let mut cmd = Command::new(server_binary());
        cmd.env_clear()
            .env("PATH", std::env::var("PATH").unwrap_or_default())
            .env("HOME", n.dir.to_string_lossy().to_string())
            .env("RUST_LOG", std::env::var("RNV_NODE_LOG").unwrap_or_else(|_| "warn".to_string()))
            .env("RUST_BACKTRACE", "0")
            .env("RNACOS_DATA_DIR", n.dir.join("data").to_string_lossy().to_string())
            .env("RNACOS_HTTP_PORT", n.http.to_string())
            .env("RNACOS_GRPC_PORT", n.grpc.to_string())
            .env("RNACOS_HTTP_CONSOLE_PORT", n.console.to_string())
            .env("RNACOS_SDK_HOST", "127.0.0.1")
            .env("RNACOS_RAFT_NODE_ID", n.id.to_string())
            .env("RNACOS_RAFT_NODE_ADDR", format!("127.0.0.1:{}", n.grpc))
            .env("RNACOS_RAFT_AUTO_INIT", if i == 0 { "true" } else { "false" })
            .env("RNACOS_RAFT_JOIN_ADDR", join)
            .env("RNACOS_ENABLE_METRICS", "false")
            .env("RNACOS_CONSOLE_ENABLE_CAPTCHA", "false")
            .env("RNACOS_HTTP_WORKERS", "2")
            .current_dir(&n.dir)
            .stdin(Stdio::null())
            .stdout(Stdio::from(log))
            .stderr(Stdio::from(log2));
        for (k, v) in &self.env {
            cmd.env(k, v);
        }
        if let Some(m) = self.node_env.get(&i) {
            for (k, v) in m {
                cmd.env(k, v);
            }
        }
        let child = cmd.spawn().map_err(|e| format!("cannot start {}: {}", server_binary().display(), e))?;
        n.child = Some(child);
        n.stopped = false;
        n.starts += 1;
        Ok(())
    }

    pub fn pid(&self, i: usize) -> Option<i32> {
        self.nodes[i].child.as_ref().map(|c| c.id() as i32)
    }

    pub fn is_running(&mut self, i: usize) -> bool {
        match self.nodes[i].child.as_mut() {
            Some(c) => matches!(c.try_wait(), Ok(None)),
            None => false,
        }
    }

    pub fn kill(&mut self, i: usize) {
        if let Some(mut c) = self.nodes[i].child.take() {
            unsafe {
                libc::kill(c.id() as i32, libc::SIGKILL);
            }
            let _ = c.wait();
        }
        self.nodes[i].stopped = false;
    }

    pub fn sigstop(&mut self, i: usize) {
        if let Some(p) = self.pid(i) {
            unsafe {
                libc::kill(p, libc::SIGSTOP);
            }
            self.nodes[i].stopped = true;
        }
    }

    pub fn sigcont(&mut self, i: usize) {
        if let Some(p) = self.pid(i) {
            unsafe {
                libc::kill(p, libc::SIGCONT);
            }
        }
        self.nodes[i].stopped = false;
    }

    pub fn http(&self, i: usize) -> String {
        format!("http://127.0.0.1:{}", self.nodes[i].http)
    }

    pub fn console(&self, i: usize) -> String {
        format!("http://127.0.0.1:{}", self.nodes[i].console)
    }

    pub fn metrics(&self, i: usize) -> Option<Value> {
        let r = self.client.get(format!("{}/nacos/v1/raft/metrics", self.http(i))).timeout(Duration::from_secs(2)).send().ok()?;
        r.json::<Value>().ok()
    }

    /// wait until node i answers HTTP
    pub fn wait_http(&mut self, i: usize, secs: u64) -> Result<(), String> {
        let t0 = Instant::now();
        while t0.elapsed() < Duration::from_secs(secs) {
            if !self.is_running(i) {
                return Err(format!("node {} exited during start-up; log tail: {}", i + 1, self.log_tail(i)));
            }
            if self.metrics(i).is_some() {
                return Ok(());
            }
            std::thread::sleep(Duration::from_millis(50));
        }
        Err(format!("node {} did not serve HTTP within {} s; log tail: {}", i + 1, secs, self.log_tail(i)))
    }

    pub fn log_tail(&self, i: usize) -> String {
        let s = std::fs::read_to_string(&self.nodes[i].log).unwrap_or_default();
        let t: String = s.chars().rev().take(1200).collect::<String>().chars().rev().collect();
        t.replace('\n', " | ")
    }

    /// lines of a node's log that mention a panic or a closed mailbox (dead actor)
    pub fn log_alarms(&self, i: usize) -> Vec<String> {
        std::fs::read_to_string(&self.nodes[i].log)
            .unwrap_or_default()
            .lines()
            .filter(|l| l.contains("panicked") || l.contains("Mailbox has closed") || l.contains("unwrap()"))
            .map(|l| l.chars().take(240).collect())
            .take(6)
            .collect()
    }

    pub fn live(&mut self) -> Vec<usize> {
        (0..self.nodes.len()).filter(|i| self.is_running(*i) && !self.nodes[*i].stopped).collect()
    }

    /// Quiescence rule (DESIGN E3): every live node reports Leader|Follower, the same current_leader and
    /// last_applied == the leader's last_log_index.
    pub fn wait_quiescent(&mut self, secs: u64) -> Result<u64, String> {
        self.wait_quiescent_opt(secs, false)
    }

    /// `allow_nonvoter`: a node that has all the data but still reports NonVoter counts as caught up
    pub fn wait_quiescent_opt(&mut self, secs: u64, allow_nonvoter: bool) -> Result<u64, String> {
        let t0 = Instant::now();
        let mut last = String::new();
        while t0.elapsed() < Duration::from_secs(secs) {
            let live = self.live();
            let ms: Vec<(usize, Option<Value>)> = live.iter().map(|i| (*i, self.metrics(*i))).collect();
            last = ms
                .iter()
                .map(|(i, m)| {
                    format!(
                        "n{}:{}",
                        i + 1,
                        m.as_ref().map(|v| format!("{}/L{}/log{}/app{}", v["state"], v["current_leader"], v["last_log_index"], v["last_applied"])).unwrap_or_else(|| "no-answer".into())
                    )
                })
                .collect::<Vec<_>>()
                .join(" ");
            if !ms.is_empty() && ms.iter().all(|(_, m)| m.is_some()) {
                let vals: Vec<&Value> = ms.iter().map(|(_, m)| m.as_ref().unwrap()).collect();
                let leader_ids: std::collections::BTreeSet<String> = vals.iter().map(|v| v["current_leader"].to_string()).collect();
                let states_ok = vals.iter().all(|v| v["state"] == "Leader" || v["state"] == "Follower" || (allow_nonvoter && v["state"] == "NonVoter"));
                let leader = vals.iter().find(|v| v["state"] == "Leader");
                if let (true, 1, Some(l)) = (states_ok, leader_ids.len(), leader) {
                    if !leader_ids.contains("null") && leader_ids.contains(&l["id"].to_string()) {
                        let ll = l["last_log_index"].as_u64().unwrap_or(0);
                        if vals.iter().all(|v| v["last_applied"].as_u64() == Some(ll)) {
                            return Ok(ll);
                        }
                    }
                }
            }
            std::thread::sleep(Duration::from_millis(150));
        }
        Err(format!("no quiescence within {} s: {}", secs, last))
    }

    /// quiescence with a periodic nudge write to a sentinel key on node `via`: an idle leader does not start
    /// catching a lagging follower up until it appends again (DESIGN F10 note), so the harness keeps a
    /// trickle of client writes going, as any live deployment has
    pub fn wait_quiescent_nudged(&mut self, secs: u64, via: usize) -> Result<u64, String> {
        self.wait_quiescent_nudged_opt(secs, via, false)
    }

    /// A formed cluster of `n` nodes: a formation that does not complete (see `form`) is thrown away and started
    /// over on fresh directories and ports, up to three times - all before any generated operation.
    pub fn new_formed(work: &Path, tag: &str, n: usize, salt: u64, env: BTreeMap<String, String>) -> Result<Cluster, String> {
        let mut last = String::new();
        for a in 0..3u64 {
            let mut c = Cluster::new(work, &format!("{}-f{}", tag, a), n, salt.wrapping_add(a * 7919), env.clone())?;
            match c.form() {
                Ok(()) => return Ok(c),
                Err(e) => {
                    last = e;
                    c.cleanup();
                }
            }
        }
        Err(last)
    }

    /// one sentinel write through node `via` to a fresh key
    pub fn nudge(&mut self, via: usize) {
        let id = format!("zz-nudge-{}", self.nudges.len() + 1);
        let r = self.publish(via, "", "DEFAULT_GROUP", &id, &format!("nudge {}", self.nudges.len() + 1));
        if matches!(r, Ok(false)) {
            self.nudges_refused.insert(format!("nudge {}", self.nudges.len() + 1));
        }
        self.nudges.push(id);
    }

    /// what a node serves for every sentinel key written so far
    pub fn nudge_view(&self, node: usize) -> Result<BTreeMap<String, Option<String>>, String> {
        let mut m = BTreeMap::new();
        for id in &self.nudges {
            m.insert(id.clone(), self.get(node, "", "DEFAULT_GROUP", id)?);
        }
        Ok(m)
    }

    pub fn wait_quiescent_nudged_opt(&mut self, secs: u64, via: usize, allow_nonvoter: bool) -> Result<u64, String> {
        let t0 = Instant::now();
        let mut n = 0u32;
        let mut last = String::new();
        while t0.elapsed() < Duration::from_secs(secs) {
            n += 1;
            let _ = n;
            self.nudge(via);
            match self.wait_quiescent_opt(2, allow_nonvoter) {
                Ok(v) => return Ok(v),
                Err(e) => last = e,
            }
        }
        Err(last)
    }

    /// Bring up all nodes one after the other: the next node is started only when the previous one has become
    /// a voting member (concurrent join requests make the leader attempt overlapping membership changes, whose
    /// errors join_node ignores - the later joiner then stays NonVoter). A join that got lost is repeated once
    /// by restarting the joiner (it re-sends the request while its log is still empty).
    pub fn form(&mut self) -> Result<(), String> {
        self.start_node(0)?;
        self.wait_http(0, 30)?;
        self.wait_quiescent(30)?;
        for i in 1..self.nodes.len() {
            self.start_node(i)?;
            self.wait_http(i, 30)?;
            let id = self.nodes[i].id;
            let t0 = Instant::now();
            let mut n = 0;
            let mut joined = false;
            let mut helped = false;
            while t0.elapsed() < Duration::from_secs(60) {
                n += 1;
                let _ = n;
                self.nudge(0);
                let member = self
                    .metrics(0)
                    .and_then(|m| m["membership_config"]["members"].as_array().map(|a| a.iter().any(|x| x.as_u64() == Some(id))))
                    .unwrap_or(false);
                let follower = self.metrics(i).map(|m| m["state"] == "Follower").unwrap_or(false);
                if member && follower {
                    joined = true;
                    break;
                }
                // the leader lists the node but has never reached it (no leader known to the joiner, empty log) after
                // 25 s: this formation is wedged (DESIGN.md 8.4, observations) - give up early, the caller starts over
                let never_contacted = self.metrics(i).map(|m| m["current_leader"].is_null() && m["last_log_index"].as_u64() == Some(0)).unwrap_or(false);
                if member && never_contacted && t0.elapsed() > Duration::from_secs(25) {
                    break;
                }
                // join_node ignores the result of raft.change_membership (it fails e.g. while the previous
                // change is still in flight) but records the node as a member in the index file anyway; the
                // documented remedy is the management API, used here only while the cluster is being formed
                if !member && t0.elapsed() > Duration::from_secs(6) {
                    let ids: Vec<u64> = (0..=i).map(|k| self.nodes[k].id).collect();
                    let _ = self
                        .client
                        .post(format!("{}/nacos/v1/raft/change-membership", self.http(0)))
                        .json(&ids)
                        .timeout(Duration::from_secs(10))
                        .send();
                    helped = true;
                }
                std::thread::sleep(Duration::from_millis(400));
            }
            if !joined {
                let ms: Vec<String> = (0..=i).map(|k| self.metrics(k).map(|m| format!("n{}:{}/L{}/t{}/log{}/app{}/members{}", k + 1, m["state"], m["current_leader"], m["current_term"], m["last_log_index"], m["last_applied"], m["membership_config"]["members"])).unwrap_or_else(|| format!("n{}:no-answer", k + 1))).collect();
                let leader_errs: Vec<String> = std::fs::read_to_string(&self.nodes[0].log).unwrap_or_default().lines().filter(|l| l.contains("ERROR") || l.contains("panicked")).map(|l| l.chars().take(220).collect::<String>()).collect::<Vec<_>>().into_iter().rev().take(4).collect();
                return Err(format!("node {} did not become a voting member (management API used: {}); metrics {:?}; leader errors: {:?}; log: {}", i + 1, helped, ms, leader_errs, self.log_tail(i).chars().rev().take(300).collect::<String>().chars().rev().collect::<String>()));
            }
        }
        self.wait_quiescent_nudged(45, 0).map(|_| ())
    }

    pub fn leader(&mut self) -> Option<usize> {
        for i in self.live() {
            if let Some(m) = self.metrics(i) {
                if m["state"] == "Leader" {
                    return Some(i);
                }
            }
        }
        None
    }

    // ---- config open API
    pub fn publish(&self, i: usize, tenant: &str, group: &str, data_id: &str, content: &str) -> Result<bool, String> {
        let r = self
            .client
            .post(format!("{}/nacos/v1/cs/configs", self.http(i)))
            .form(&[("dataId", data_id), ("group", group), ("tenant", tenant), ("content", content)])
            .send()
            .map_err(|e| format!("transport: {}", e))?;
        let st = r.status();
        let body = r.text().unwrap_or_default();
        Ok(st.is_success() && body.trim() == "true")
    }

    pub fn remove(&self, i: usize, tenant: &str, group: &str, data_id: &str) -> Result<bool, String> {
        let r = self
            .client
            .delete(format!("{}/nacos/v1/cs/configs", self.http(i)))
            .query(&[("dataId", data_id), ("group", group), ("tenant", tenant)])
            .send()
            .map_err(|e| format!("transport: {}", e))?;
        let st = r.status();
        let body = r.text().unwrap_or_default();
        Ok(st.is_success() && body.trim() == "true")
    }

    /// Ok(Some(content)) / Ok(None) = not found / Err = transport or server error
    pub fn get(&self, i: usize, tenant: &str, group: &str, data_id: &str) -> Result<Option<String>, String> {
        let r = self
            .client
            .get(format!("{}/nacos/v1/cs/configs", self.http(i)))
            .query(&[("dataId", data_id), ("group", group), ("tenant", tenant)])
            .send()
            .map_err(|e| format!("transport: {}", e))?;
        let st = r.status();
        let body = r.text().unwrap_or_default();
        if st.is_success() {
            Ok(Some(body))
        } else if st.as_u16() == 404 {
            Ok(None)
        } else {
            Err(format!("status {} body {}", st, body.chars().take(120).collect::<String>()))
        }
    }

    /// evidence for the open finding "a node applied entries the current leader does not have": some live node reports a
    /// last_applied index greater than the last log index of the node all live nodes name as leader
    pub fn node_applied_beyond_leader(&mut self) -> Option<String> {
        let live = self.live();
        let ms: Vec<(usize, Value)> = live.iter().filter_map(|i| self.metrics(*i).map(|m| (*i, m))).collect();
        let leader_id = ms.iter().find(|(_, m)| m["state"] == "Leader").and_then(|(_, m)| m["id"].as_u64())?;
        if !ms.iter().all(|(_, m)| m["current_leader"].as_u64() == Some(leader_id)) {
            return None;
        }
        let leader_log = ms.iter().find(|(_, m)| m["id"].as_u64() == Some(leader_id)).and_then(|(_, m)| m["last_log_index"].as_u64())?;
        for (i, m) in &ms {
            let app = m["last_applied"].as_u64().unwrap_or(0);
            if m["id"].as_u64() != Some(leader_id) && app > leader_log {
                return Some(format!("node {} reports last_applied {} while the leader (node {}) has last log index {}", i + 1, app, leader_id, leader_log));
            }
        }
        None
    }

    pub fn shutdown(&mut self) {
        for i in 0..self.nodes.len() {
            if self.nodes[i].stopped {
                self.sigcont(i);
            }
            self.kill(i);
        }
    }

    pub fn cleanup(&mut self) {
        self.shutdown();
        std::fs::remove_dir_all(&self.work).ok();
    }
}

impl Drop for Cluster {
    fn drop(&mut self) {
        self.shutdown();
    }
}
