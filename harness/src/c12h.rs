//! C12, black-box tier: registrations, deregistrations, connection closes and queries through the shipped HTTP and gRPC
//! handlers of a real single node (`/nacos/v1/ns/instance`, `/nacos/v1/ns/instance/list`, gRPC InstanceRequest /
//! ServiceQueryRequest over held bi-stream connections), against a reference map. The actor tier (c1112) decides the
//! ownership rules between different writers of one address; here every address has one kind of writer (HTTP
//! addresses 0..3, connection addresses 4..7, each written by one connection at a time), so the model needs no rule
//! the statement does not give, and what the actor tier cannot reach is in the loop: parameter parsing and defaults of
//! the handlers (enabled, weight, ephemeral, healthyOnly), the connection id as owner, the disconnect path of the
//! real bi-stream manager.  One node serves all cases; every case uses services of its own.

use crate::c15::GrpcConn;
use crate::cluster::Cluster;
use crate::engine::*;
use proptest::prelude::*;
use rnacos::grpc::api_model as am;
use serde::{Deserialize, Serialize};
use serde_json::Value;
use std::collections::{BTreeMap, BTreeSet};
use std::sync::atomic::{AtomicU64, Ordering};
use std::sync::Arc;
use std::time::{Duration, Instant};

#[derive(Debug, Clone, Serialize, Deserialize, Hash)]
pub enum ROp {
    HttpRegister { svc: u8, addr: u8, enabled: bool, weight: u8 },
    HttpDeregister { svc: u8, addr: u8 },
    GrpcConnect { conn: u8 },
    GrpcRegister { conn: u8, svc: u8, addr: u8, enabled: bool, weight: u8 },
    GrpcDeregister { conn: u8, svc: u8, addr: u8 },
    /// the client goes away: the server must drop exactly the instances that connection registered
    GrpcClose { conn: u8 },
    /// gRPC ServiceQueryRequest (healthy_only as given) compared with the model
    GrpcQuery { svc: u8, healthy_only: bool },
}

#[derive(Debug, Clone, Serialize, Deserialize, Hash)]
pub struct RCase {
    pub ops: Vec<ROp>,
}

pub fn case_strategy() -> BoxedStrategy<RCase> {
    let op = prop_oneof![
        6 => (0u8..2, 0u8..4, prop::bool::weighted(0.75), 2u8..5).prop_map(|(svc, addr, enabled, weight)| ROp::HttpRegister { svc, addr, enabled, weight }),
        2 => (0u8..2, 0u8..4).prop_map(|(svc, addr)| ROp::HttpDeregister { svc, addr }),
        2 => (0u8..2).prop_map(|conn| ROp::GrpcConnect { conn }),
        6 => (0u8..2, 0u8..2, 4u8..8, prop::bool::weighted(0.75), 2u8..5).prop_map(|(conn, svc, addr, enabled, weight)| ROp::GrpcRegister { conn, svc, addr, enabled, weight }),
        2 => (0u8..2, 0u8..2, 4u8..8).prop_map(|(conn, svc, addr)| ROp::GrpcDeregister { conn, svc, addr }),
        2 => (0u8..2).prop_map(|conn| ROp::GrpcClose { conn }),
        2 => (0u8..2, any::<bool>()).prop_map(|(svc, healthy_only)| ROp::GrpcQuery { svc, healthy_only }),
    ];
    (0u8..2, prop::collection::vec(op, 3..22))
        .prop_map(|(c0, mut ops)| {
            // most cases start with a connection so that connection ops are not skipped
            ops.insert(0, ROp::GrpcConnect { conn: c0 });
            RCase { ops }
        })
        .boxed()
}

pub struct Target {
    pub http: String,
    pub grpc: u16,
}

static CASE_NO: AtomicU64 = AtomicU64::new(0);

thread_local! {
    static CLIENT: reqwest::blocking::Client = reqwest::blocking::Client::builder().timeout(Duration::from_secs(10)).connect_timeout(Duration::from_secs(2)).pool_max_idle_per_host(0).build().unwrap();
}

fn addr_of(a: u8) -> (String, u32) {
    (format!("10.12.0.{}", 1 + a), 7000 + a as u32)
}

#[derive(Debug, Clone, PartialEq)]
struct MInst {
    enabled: bool,
    weight: u8,
    /// None = registered over HTTP, Some(k) = by connection slot k
    owner: Option<usize>,
}

type Obs = BTreeSet<(String, u32, String)>; // ip, port, weight as text

fn http_list(t: &Target, svc: &str, healthy_only: bool) -> Result<(Obs, Vec<String>), String> {
    let r = CLIENT
        .with(|c| c.get(format!("{}/nacos/v1/ns/instance/list", t.http)).query(&[("serviceName", svc), ("groupName", "DEFAULT_GROUP"), ("healthyOnly", if healthy_only { "true" } else { "false" })]).send())
        .map_err(|e| format!("transport error: {}", e))?;
    let v: Value = r.json().map_err(|e| format!("instance list is not JSON: {}", e))?;
    hosts_of(&v["hosts"])
}

fn hosts_of(hosts: &Value) -> Result<(Obs, Vec<String>), String> {
    let mut out = BTreeSet::new();
    let mut flaws = vec![];
    for h in hosts.as_array().cloned().unwrap_or_default() {
        let ip = h["ip"].as_str().unwrap_or("").to_string();
        let port = h["port"].as_u64().unwrap_or(0) as u32;
        let w = h["weight"].as_f64().unwrap_or(-1.0);
        if h["enabled"].as_bool() == Some(false) {
            flaws.push(format!("{}:{} is returned although it is disabled", ip, port));
        }
        if h["healthy"].as_bool() == Some(false) {
            flaws.push(format!("{}:{} is returned as unhealthy although it was registered moments ago", ip, port));
        }
        if h["ephemeral"].as_bool() == Some(false) {
            flaws.push(format!("{}:{} is returned as persistent although it was registered ephemeral", ip, port));
        }
        if !out.insert((ip.clone(), port, format!("{:.1}", w))) {
            flaws.push(format!("{}:{} is returned twice", ip, port));
        }
    }
    Ok((out, flaws))
}

fn expected(model: &BTreeMap<(usize, u8), MInst>, s: usize) -> Obs {
    model
        .iter()
        .filter(|((ms, _), i)| *ms == s && i.enabled)
        .map(|((_, a), i)| {
            let (ip, port) = addr_of(*a);
            (ip, port, format!("{:.1}", i.weight as f64))
        })
        .collect()
}

pub fn run_case(case: &RCase, t: &Target) -> CaseReport {
    let n = CASE_NO.fetch_add(1, Ordering::SeqCst);
    let svcs = [format!("c12h-{}-{}-a", std::process::id(), n), format!("c12h-{}-{}-b", std::process::id(), n)];
    let mut labels: BTreeSet<String> = BTreeSet::new();
    let mut model: BTreeMap<(usize, u8), MInst> = BTreeMap::new();
    let mut conns: Vec<Option<GrpcConn>> = vec![None, None];
    let mut closed_with_instances = false;
    let mut disabled_present = false;
    let discard = |labels: &BTreeSet<String>, m: String| CaseReport { labels: labels.iter().map(|l| format!("H_{}", l)).collect(), nontrivial: false, verdict: Verdict::Discard(m) };
    let mut failure: Option<String> = None;
    'ops: for (opi, op) in case.ops.iter().enumerate() {
        let what = format!("after op #{} {:?}", opi, op);
        match op {
            ROp::HttpRegister { svc, addr, enabled, weight } => {
                let s = *svc as usize % 2;
                let (ip, port) = addr_of(*addr);
                let r = CLIENT.with(|c| {
                    c.post(format!("{}/nacos/v1/ns/instance", t.http))
                        .form(&[("serviceName", svcs[s].clone()), ("groupName", "DEFAULT_GROUP".into()), ("ip", ip.clone()), ("port", port.to_string()), ("ephemeral", "true".into()), ("enabled", enabled.to_string()), ("weight", weight.to_string())])
                        .send()
                });
                match r {
                    Ok(r) if r.status().is_success() => {
                        model.insert((s, *addr), MInst { enabled: *enabled, weight: *weight, owner: None });
                        labels.insert("http_register".into());
                    }
                    Ok(r) => return discard(&labels, format!("{}: HTTP register refused: {}", what, r.status())),
                    Err(e) => return discard(&labels, format!("{}: transport error: {}", what, e)),
                }
            }
            ROp::HttpDeregister { svc, addr } => {
                let s = *svc as usize % 2;
                let (ip, port) = addr_of(*addr);
                let r = CLIENT.with(|c| c.delete(format!("{}/nacos/v1/ns/instance", t.http)).query(&[("serviceName", svcs[s].clone()), ("groupName", "DEFAULT_GROUP".into()), ("ip", ip.clone()), ("port", port.to_string()), ("ephemeral", "true".into())]).send());
                match r {
                    Ok(r) if r.status().is_success() => {
                        if model.remove(&(s, *addr)).is_some() {
                            labels.insert("http_deregister_of_a_registered_address".into());
                        }
                    }
                    Ok(_) => {}
                    Err(e) => return discard(&labels, format!("{}: transport error: {}", what, e)),
                }
            }
            ROp::GrpcConnect { conn } => {
                let k = *conn as usize % 2;
                if conns[k].is_none() {
                    match GrpcConn::connect(t.grpc, 0) {
                        Ok(g) => conns[k] = Some(g),
                        Err(e) => return discard(&labels, format!("{}: {}", what, e)),
                    }
                }
            }
            ROp::GrpcRegister { conn, svc, addr, enabled, weight } => {
                let k = *conn as usize % 2;
                let s = *svc as usize % 2;
                if let Some(g) = &conns[k] {
                    // one connection at a time writes a connection address (the ownership rules between writers are the
                    // actor tier's subject)
                    if matches!(model.get(&(s, *addr)), Some(MInst { owner: Some(o), .. }) if *o != k) {
                        continue;
                    }
                    let (ip, port) = addr_of(*addr);
                    match g.instance_with(&svcs[s], &ip, port, true, *enabled, *weight as f32) {
                        Ok(()) => {
                            // the SDK cannot say "enabled not given": the handler takes enabled=true of a re-registration as
                            // "not given" (tag-wise overwrite, rule R2 of the actor tier's model): an existing instance keeps
                            // its flag unless the request disables it
                            let en = match model.get(&(s, *addr)) {
                                Some(old) if *enabled => old.enabled,
                                _ => *enabled,
                            };
                            if en != *enabled {
                                labels.insert("grpc_reregistration_keeps_disabled".into());
                            }
                            model.insert((s, *addr), MInst { enabled: en, weight: *weight, owner: Some(k) });
                            labels.insert("grpc_register".into());
                        }
                        Err(e) => return discard(&labels, format!("{}: {}", what, e)),
                    }
                }
            }
            ROp::GrpcDeregister { conn, svc, addr } => {
                let k = *conn as usize % 2;
                let s = *svc as usize % 2;
                if let Some(g) = &conns[k] {
                    if !matches!(model.get(&(s, *addr)), Some(MInst { owner: Some(o), .. }) if *o == k) {
                        continue;
                    }
                    let (ip, port) = addr_of(*addr);
                    match g.instance_with(&svcs[s], &ip, port, false, true, 1.0) {
                        Ok(()) => {
                            model.remove(&(s, *addr));
                            labels.insert("grpc_deregister_by_the_owner".into());
                        }
                        Err(e) => return discard(&labels, format!("{}: {}", what, e)),
                    }
                }
            }
            ROp::GrpcClose { conn } => {
                let k = *conn as usize % 2;
                if let Some(g) = conns[k].take() {
                    g.close();
                    let before = model.len();
                    model.retain(|_, i| i.owner != Some(k));
                    if model.len() < before {
                        closed_with_instances = true;
                        labels.insert("connection_closed_while_holding_registrations".into());
                    }
                    if model.values().any(|i| i.owner.is_some() && i.owner != Some(k)) {
                        labels.insert("other_connection_keeps_its_registrations".into());
                    }
                }
            }
            ROp::GrpcQuery { svc, healthy_only } => {
                let s = *svc as usize % 2;
                let req = am::ServiceQueryRequest { namespace: Some("".into()), service_name: Some(svcs[s].clone()), group_name: Some("DEFAULT_GROUP".into()), cluster: Some("".into()), healthy_only: Some(*healthy_only), ..Default::default() };
                // (queried below, after the state has settled)
                let _ = req;
            }
        }
        if model.values().any(|i| !i.enabled) {
            disabled_present = true;
        }
        // the HTTP handlers answer when the actor has the message; give the state up to 2 s to show
        let deadline = Instant::now() + Duration::from_secs(2);
        loop {
            let mut mismatch: Option<String> = None;
            let mut all: Vec<String> = vec![];
            for s in 0..2 {
                for healthy_only in [false, true] {
                    match http_list(t, &svcs[s], healthy_only) {
                        Ok((got, flaws)) => {
                            let want = expected(&model, s);
                            all.push(format!("svc#{} healthyOnly={} -> {:?} {:?}", s, healthy_only, got, flaws));
                            if mismatch.is_some() {
                                continue;
                            }
                            if let Some(f) = flaws.first() {
                                mismatch = Some(format!("{}: instance list of service #{} (healthyOnly={}): {}", what, s, healthy_only, f));
                            } else if got != want {
                                let missing: Vec<_> = want.difference(&got).collect();
                                let extra: Vec<_> = got.difference(&want).collect();
                                mismatch = Some(format!("{}: instance list of service #{} (healthyOnly={}): registered and enabled but not returned {:?}; returned but not registered (deregistered, disabled, owner disconnected or never there) {:?}", what, s, healthy_only, missing, extra));
                            }
                        }
                        Err(e) => return discard(&labels, format!("{}: {}", what, e)),
                    }
                }
            }
            match mismatch {
                None => break,
                Some(m) if Instant::now() > deadline => {
                    failure = Some(format!("{} [all lists: {}]", m, all.join("; ")));
                    break 'ops;
                }
                Some(_) => std::thread::sleep(Duration::from_millis(60)),
            }
        }
        if let ROp::GrpcQuery { svc, healthy_only } = op {
            let s = *svc as usize % 2;
            let req = am::ServiceQueryRequest { namespace: Some("".into()), service_name: Some(svcs[s].clone()), group_name: Some("DEFAULT_GROUP".into()), cluster: Some("".into()), healthy_only: Some(*healthy_only), ..Default::default() };
            match crate::c09h::grpc_request(t.grpc, "ServiceQueryRequest", serde_json::to_string(&req).unwrap_or_default()) {
                Ok(v) => {
                    let (got, flaws) = hosts_of(&v["serviceInfo"]["hosts"]).unwrap_or_default();
                    let want = expected(&model, s);
                    if let Some(f) = flaws.first() {
                        failure = Some(format!("{}: gRPC ServiceQueryRequest of service #{}: {}", what, s, f));
                        break 'ops;
                    }
                    if got != want {
                        failure = Some(format!("{}: gRPC ServiceQueryRequest of service #{} (healthy_only={}) returns {:?}, registered and enabled are {:?}", what, s, healthy_only, got, want));
                        break 'ops;
                    }
                    labels.insert("grpc_query".into());
                }
                Err(e) => return discard(&labels, format!("{}: {}", what, e)),
            }
        }
    }
    // detail view of every registered instance (also the disabled ones, which no list returns)
    if failure.is_none() {
        for ((s, a), i) in &model {
            let (ip, port) = addr_of(*a);
            let r = CLIENT.with(|c| c.get(format!("{}/nacos/v1/ns/instance", t.http)).query(&[("serviceName", svcs[*s].clone()), ("groupName", "DEFAULT_GROUP".into()), ("ip", ip.clone()), ("port", port.to_string())]).send());
            match r {
                Ok(r) => {
                    let st = r.status().as_u16();
                    let v: Value = r.json().unwrap_or(Value::Null);
                    if st != 200 {
                        failure = Some(format!("end of case: GET instance {}:{} of service #{} answers {} although it is registered ({:?})", ip, port, s, st, i));
                        break;
                    }
                    if v["enabled"].as_bool() != Some(i.enabled) || (v["weight"].as_f64().unwrap_or(-1.0) - i.weight as f64).abs() > 1e-6 {
                        failure = Some(format!("end of case: GET instance {}:{} of service #{} returns enabled={} weight={}, registered with enabled={} weight={}", ip, port, s, v["enabled"], v["weight"], i.enabled, i.weight));
                        break;
                    }
                    labels.insert("instance_detail".into());
                }
                Err(e) => return discard(&labels, format!("end of case: transport error: {}", e)),
            }
        }
    }
    for c in conns.iter_mut() {
        if let Some(g) = c.take() {
            g.close();
        }
    }
    if disabled_present {
        labels.insert("disabled_instance_present".into());
    }
    let nontrivial = closed_with_instances || disabled_present;
    let labels: Vec<String> = labels.iter().map(|l| format!("H_{}", l)).collect();
    match failure {
        None => CaseReport::pass(labels, nontrivial),
        Some(m) => CaseReport::violation(labels, true, m),
    }
}

pub fn start_node(work: &std::path::Path, seed: u64) -> Result<(Cluster, Arc<Target>), String> {
    let mut c = Cluster::new(work, "c12h", 1, seed.wrapping_mul(104729).wrapping_add(std::process::id() as u64), BTreeMap::new())?;
    c.start_node(0)?;
    c.wait_http(0, 30)?;
    c.wait_quiescent(30).map_err(|e| format!("node did not become leader: {}", e))?;
    let t = Arc::new(Target { http: c.http(0), grpc: c.nodes[0].grpc });
    Ok((c, t))
}
