//! Entry point: C16 (OpenAPI / gRPC auth) and C17 (console session + role enforcement).
pub mod c16;
pub mod c17;
pub mod grpcx;
pub mod rawhttp;
pub mod restart;
pub mod routes;
pub mod spell;
pub mod srv;
use crate::engine::Ctx;

pub fn main(ctx: &Ctx) -> i32 {
    match ctx.id.as_str() {
        "C16" => crate::c1617::c16::main(ctx),
        "C17" => crate::c1617::c17::main(ctx),
        "ROUTES" => {
            for r in crate::c1617::c16::discover_sdk_routes().unwrap_or_default() {
                println!("SDK {}", r);
            }
            for r in crate::c1617::routes::discover(rnacos::web_config::console_config).unwrap_or_default() {
                println!("CONSOLE {}", r);
            }
            0
        }
        other => {
            eprintln!("unknown property {} (this binary serves C16 and C17)", other);
            2
        }
    }
}
