//! C19 - issued sequence ids are unique and increasing across restarts (single node tier).
//! Histories of next-id / range draws on several keys through the real SequenceManager (double
//! buffered cache -> NextRange through Raft), config publishes through ConfigAsyncCmd::Add (history
//! ids from the config sequence), compactions, clean restarts and restarts with a stale
//! last-applied header (start-up re-applies a log suffix). Oracle: a monitor over every id ever
//! handed out.

use crate::engine::*;
use crate::node::*;
use crate::reqgen::KeyIx;
use proptest::prelude::*;
use serde::{Deserialize, Serialize};
use std::collections::{BTreeMap, BTreeSet};
use std::path::Path;
use std::sync::atomic::{AtomicU64, Ordering};
use std::sync::Arc;

#[derive(Debug, Clone, Serialize, Deserialize, PartialEq)]
pub enum Step {
    Next { key: u8 },
    /// n consecutive draws (crosses the 100-id cache ranges)
    NextMany { key: u8, n: u8 },
    /// one direct range of n ids (n below, around and above the 100-id step of the cached ranges)
    Range { key: u8, n: u16 },
    Publish { key: KeyIx, variant: u8 },
    /// publish the content the key already has (a no-op for the store, but the leader still draws a history id for it,
    /// and it may be the publish that carries the next reserved block of the config sequence)
    #[serde(alias = "RePublish")]
    Republish { key: KeyIx },
    /// n publishes in a row on one key (history ids cross the 100-id block of the config sequence)
    PublishMany { key: KeyIx, n: u8 },
    Compact,
    CompactConcurrent,
    Restart,
    /// restart after the last-applied header has been rewound by `back` entries (never below the newest
    /// snapshot): the crash point "log entry written, header write not yet issued"
    RestartStaleApplied { back: u8 },
}

#[derive(Debug, Clone, Serialize, Deserialize)]
pub struct Case {
    pub steps: Vec<Step>,
}

fn step_strategy() -> impl Strategy<Value = Step> {
    prop_oneof![
        6 => (0u8..3).prop_map(|key| Step::Next { key }),
        3 => (0u8..3, 20u8..130).prop_map(|(key, n)| Step::NextMany { key, n }),
        3 => (0u8..3, prop_oneof![4 => 1u16..40, 2 => 96u16..106, 2 => 101u16..330]).prop_map(|(key, n)| Step::Range { key, n }),
        6 => ((0u8..2, 0u8..2, 0u8..3), 0u8..20).prop_map(|((tenant, group, id), variant)| Step::Publish { key: KeyIx { tenant, group, id }, variant }),
        3 => (0u8..2, 0u8..2, 0u8..3).prop_map(|(tenant, group, id)| Step::Republish { key: KeyIx { tenant, group, id } }),
        1 => ((0u8..2, 0u8..2, 0u8..3), 60u8..130).prop_map(|((tenant, group, id), n)| Step::PublishMany { key: KeyIx { tenant, group, id }, n }),
        2 => Just(Step::Compact),
        1 => Just(Step::CompactConcurrent),
        2 => Just(Step::Restart),
        2 => (1u8..30).prop_map(|back| Step::RestartStaleApplied { back }),
    ]
}

pub fn case_strategy() -> impl Strategy<Value = Case> {
    prop::collection::vec(step_strategy(), 6..50).prop_map(|steps| Case { steps })
}

const KEYS: [&str; 3] = ["seq-a", "TOOL_SPEC_VERSION", "seq-c"];

#[derive(Default)]
struct Monitor {
    issued: BTreeMap<String, BTreeSet<u64>>,
    last_next: BTreeMap<String, u64>,
    last_range_start: BTreeMap<String, u64>,
    history_ids_seen: BTreeMap<String, Vec<i64>>,
}

impl Monitor {
    fn next(&mut self, key: &str, id: u64, when: &str) -> Result<(), String> {
        let set = self.issued.entry(key.to_string()).or_default();
        if !set.insert(id) {
            return Err(format!("{}: sequence '{}' handed out id {} a second time", when, key, id));
        }
        if let Some(prev) = self.last_next.get(key) {
            if id <= *prev {
                return Err(format!("{}: sequence '{}' went backwards: next id {} after {}", when, key, id, prev));
            }
        }
        self.last_next.insert(key.to_string(), id);
        Ok(())
    }
    fn range(&mut self, key: &str, start: u64, len: u64, when: &str) -> Result<(), String> {
        let set = self.issued.entry(key.to_string()).or_default();
        for id in start..start + len {
            if !set.insert(id) {
                return Err(format!("{}: sequence '{}' handed out id {} a second time (range {}..{})", when, key, id, start, start + len));
            }
        }
        if let Some(prev) = self.last_range_start.get(key) {
            if start <= *prev {
                return Err(format!("{}: sequence '{}' ranges went backwards: start {} after {}", when, key, start, prev));
            }
        }
        self.last_range_start.insert(key.to_string(), start);
        Ok(())
    }
    /// history ids as served now (newest first per key)
    fn histories(&mut self, v: &serde_json::Value, when: &str) -> Result<(), String> {
        let mut all: BTreeMap<i64, String> = BTreeMap::new();
        if let Some(m) = v.as_object() {
            for (k, ids) in m {
                let ids: Vec<i64> = ids.as_array().map(|a| a.iter().filter_map(|x| x.as_i64()).collect()).unwrap_or_default();
                for w in ids.windows(2) {
                    if w[0] <= w[1] {
                        return Err(format!("{}: history of {} is not strictly newest-first by id: {:?}", when, k, ids));
                    }
                }
                for id in &ids {
                    if let Some(other) = all.insert(*id, k.clone()) {
                        return Err(format!("{}: history id {} stamped on two entries ({} and {})", when, id, other, k));
                    }
                }
                // ids already seen for this key must still be there (bounded to 100) and nothing older may appear
                if let Some(prev) = self.history_ids_seen.get(k) {
                    if let (Some(pmax), Some(nmax)) = (prev.first(), ids.first()) {
                        if nmax < pmax && !ids.is_empty() {
                            return Err(format!("{}: newest history id of {} went backwards: {} after {}", when, k, nmax, pmax));
                        }
                    }
                }
                self.history_ids_seen.insert(k.clone(), ids);
            }
        }
        Ok(())
    }
}

static CASE_NO: AtomicU64 = AtomicU64::new(0);
static EXCLUDED: AtomicU64 = AtomicU64::new(0);

/// Known finding: a leader never re-applies committed entries that lie behind the recorded last-applied
/// index (async-raft only sets last_applied when its initial blank entry commits), so after a crash between a
/// log append and the lazy last-applied header write the suffix is neither replayed at start-up nor applied
/// later: sequence ranges and config history ids are handed out again.
pub const KNOWN_STALE: &str = "C19/log-suffix-behind-last-applied-header-not-reapplied-by-leader";

fn rewind_header(dir: &Path, to: u64) -> std::io::Result<()> {
    use std::io::{Seek, SeekFrom, Write};
    let mut f = std::fs::OpenOptions::new().write(true).open(dir.join("index"))?;
    f.seek(SeekFrom::Start(0))?;
    f.write_all(&to.to_be_bytes())?;
    Ok(())
}

/// open finding shared with C01: a compaction that runs concurrently with applies can produce a snapshot whose index
/// and content disagree, so after a restart entries are applied twice (config history ids appear twice)
pub const KNOWN_FUZZY: &str = "C19/duplicate-history-ids-need-compaction-concurrent-with-apply";

pub fn run_case(case: &Case, work: &Path) -> CaseReport {
    let r = run_case_mode(case, work, false);
    if let Verdict::Violation(_) = &r.verdict {
        if case.steps.iter().any(|s| matches!(s, Step::CompactConcurrent)) && is_open("C19", KNOWN_FUZZY) && std::env::var("RNV_C19_STRICT").is_err() {
            // recognised by the history: the same steps with every compaction awaited pass
            let awaited = Case {
                steps: case.steps.iter().map(|s| if matches!(s, Step::CompactConcurrent) { Step::Compact } else { s.clone() }).collect(),
                ..case.clone()
            };
            if let Verdict::Pass = run_case_mode(&awaited, work, false).verdict {
                let mut labels = r.labels.clone();
                labels.push("known_needs_concurrent_compaction".into());
                return CaseReport { labels, nontrivial: r.nontrivial, verdict: Verdict::Known(KNOWN_FUZZY.into()) };
            }
        }
    }
    r
}

/// strict = generate and judge the known shape too (replay of the documenting case)
pub fn run_case_mode(case: &Case, work: &Path, strict: bool) -> CaseReport {
    let n = CASE_NO.fetch_add(1, Ordering::SeqCst);
    let tag = format!("q{}", n);
    let dir = unique_dir(work, &tag);
    let r = run_case_inner(case, work, &tag, &dir, strict);
    std::fs::remove_dir_all(&dir).ok();
    r
}

fn run_case_inner(case: &Case, work: &Path, tag: &str, dir: &Path, strict: bool) -> CaseReport {
    let mut labels: BTreeSet<String> = BTreeSet::new();
    let mut mon = Monitor::default();
    let mut i = 0usize;
    let mut seg = 0usize;
    let mut first = true;
    let mut compacted = false;
    let mut nontrivial = false;
    let mut restarted_after_compaction = false;
    let mut stale_restart = false;
    let mut publish_no = 0u32;
    let mut current: BTreeMap<String, String> = BTreeMap::new();
    let mut excluded_stale = 0u64;
    let known_stale = !strict && is_open("C19", KNOWN_STALE);
    loop {
        // map phase op index -> what it was
        let mut ops = vec![NodeOp::WaitLeader];
        let mut meaning: Vec<(usize, String, Option<(String, u64)>)> = vec![]; // (op index, kind, (key, n))
        let mut end: Option<Step> = None;
        while i < case.steps.len() {
            let st = case.steps[i].clone();
            i += 1;
            match &st {
                Step::Next { key } => {
                    meaning.push((ops.len(), "next".into(), Some((KEYS[*key as usize % 3].to_string(), 1))));
                    ops.push(NodeOp::SeqNext(KEYS[*key as usize % 3].to_string()));
                }
                Step::NextMany { key, n } => {
                    for _ in 0..*n {
                        meaning.push((ops.len(), "next".into(), Some((KEYS[*key as usize % 3].to_string(), 1))));
                        ops.push(NodeOp::SeqNext(KEYS[*key as usize % 3].to_string()));
                    }
                    labels.insert("crosses_cache_range".into());
                }
                Step::Range { key, n } => {
                    if *n > 100 {
                        labels.insert("direct_range_longer_than_cache_step".into());
                    }
                    meaning.push((ops.len(), "range".into(), Some((KEYS[*key as usize % 3].to_string(), *n as u64))));
                    ops.push(NodeOp::SeqRange(KEYS[*key as usize % 3].to_string(), *n as u64));
                }
                Step::Publish { key, variant } => {
                    publish_no += 1;
                    meaning.push((ops.len(), "publish".into(), None));
                    current.insert(format!("{:?}", key), format!("content-{}-{}", variant, publish_no));
                    ops.push(NodeOp::Publish {
                        key: key.clone(),
                        value: format!("content-{}-{}", variant, publish_no),
                    });
                }
                Step::Republish { key } => {
                    let kk = format!("{:?}", key);
                    let value = match current.get(&kk) {
                        Some(v) => v.clone(),
                        None => {
                            publish_no += 1;
                            format!("content-first-{}", publish_no)
                        }
                    };
                    current.insert(kk, value.clone());
                    meaning.push((ops.len(), "publish".into(), None));
                    ops.push(NodeOp::Publish { key: key.clone(), value });
                    labels.insert("republish_unchanged_content".into());
                }
                Step::PublishMany { key, n } => {
                    for _ in 0..*n {
                        publish_no += 1;
                        let value = format!("content-m-{}", publish_no);
                        current.insert(format!("{:?}", key), value.clone());
                        meaning.push((ops.len(), "publish".into(), None));
                        ops.push(NodeOp::Publish { key: key.clone(), value });
                    }
                    labels.insert("history_ids_cross_block".into());
                }
                Step::Compact => {
                    ops.push(NodeOp::Compact);
                    compacted = true;
                    labels.insert("compaction".into());
                }
                Step::CompactConcurrent => {
                    ops.push(NodeOp::CompactSpawn);
                    compacted = true;
                    labels.insert("compaction_concurrent".into());
                }
                Step::Restart | Step::RestartStaleApplied { .. } => {
                    end = Some(st);
                    break;
                }
            }
        }
        ops.push(NodeOp::Barrier);
        let hist_ix = ops.len();
        ops.push(NodeOp::HistoryIds);
        let info_ix = ops.len();
        ops.push(NodeOp::IndexInfo);
        ops.push(NodeOp::Exit { raw: false });
        let ptag = format!("{}-s{}", tag, seg);
        let ph = phase(dir, work, &ptag, 1, true, 1_000_000, ops);
        let run = match run_phase_child(work, &ptag, &ph, 180) {
            Ok(r) => r,
            Err(e) => {
                return if first {
                    CaseReport {
                        labels: vec![],
                        nontrivial: false,
                        verdict: Verdict::Discard(e),
                    }
                } else {
                    CaseReport::violation(labels.into_iter().collect(), true, format!("segment {}: {}", seg, e))
                }
            }
        };
        match run.results.first() {
            Some(NodeRes::Ok) => {}
            other => {
                let msg = format!("segment {}: node is not an idle leader after start: {:?}; stderr {}", seg, other, run.stderr_tail);
                return if first {
                    CaseReport {
                        labels: vec![],
                        nontrivial: false,
                        verdict: Verdict::Discard(msg),
                    }
                } else {
                    CaseReport::violation(labels.into_iter().collect(), true, msg)
                };
            }
        }
        first = false;
        for (ix, kind, arg) in &meaning {
            let when = format!("segment {} op #{}", seg, ix);
            match (kind.as_str(), run.results.get(*ix)) {
                ("next", Some(NodeRes::Seq(id))) => {
                    let (key, _) = arg.clone().unwrap();
                    if let Err(e) = mon.next(&key, *id, &when) {
                        return CaseReport::violation(labels.into_iter().collect(), true, e);
                    }
                    if restarted_after_compaction {
                        nontrivial = true;
                    }
                }
                ("range", Some(NodeRes::Range { start, len })) => {
                    let (key, n) = arg.clone().unwrap();
                    if *len != n {
                        return CaseReport::violation(labels.into_iter().collect(), true, format!("{}: asked for a range of {} ids, got {}", when, n, len));
                    }
                    if let Err(e) = mon.range(&key, *start, *len, &when) {
                        return CaseReport::violation(labels.into_iter().collect(), true, e);
                    }
                    if restarted_after_compaction {
                        nontrivial = true;
                    }
                }
                ("publish", Some(NodeRes::Ok)) => {}
                (k, other) => {
                    return CaseReport::violation(labels.into_iter().collect(), true, format!("{}: {} request got {:?}", when, k, other));
                }
            }
        }
        match run.results.get(hist_ix) {
            Some(NodeRes::HistoryIds(v)) => {
                if let Err(e) = mon.histories(v, &format!("segment {}", seg)) {
                    return CaseReport::violation(labels.into_iter().collect(), true, e);
                }
            }
            other => return CaseReport::violation(labels.into_iter().collect(), true, format!("segment {}: no history ids: {:?}", seg, other)),
        }
        let info = match run.results.get(info_ix) {
            Some(NodeRes::IndexInfo {
                last_applied,
                snapshot_end,
                last_log,
            }) => (*last_applied, *snapshot_end, *last_log),
            other => return CaseReport::violation(labels.into_iter().collect(), true, format!("segment {}: no index info: {:?}", seg, other)),
        };
        match end {
            None => break,
            Some(Step::RestartStaleApplied { .. }) if known_stale => {
                // known finding (open): excluded by construction, the step degrades to a clean restart
                excluded_stale += 1;
                labels.insert("restart".into());
            }
            Some(Step::RestartStaleApplied { back }) => {
                let to = info.0.saturating_sub(back as u64).max(info.1);
                if to < info.0 {
                    if let Err(e) = rewind_header(dir, to) {
                        return CaseReport {
                            labels: labels.into_iter().collect(),
                            nontrivial: false,
                            verdict: Verdict::Discard(format!("cannot rewind header: {}", e)),
                        };
                    }
                    labels.insert("restart_with_replayed_suffix".into());
                    stale_restart = true;
                }
                labels.insert("restart".into());
            }
            Some(_) => {
                labels.insert("restart".into());
            }
        }
        if compacted {
            restarted_after_compaction = true;
            labels.insert("restart_after_compaction".into());
        }
        if stale_restart {
            nontrivial = nontrivial || true;
        }
        seg += 1;
        if i >= case.steps.len() {
            // one more phase so that ids issued after the last restart are observed
            let ops = vec![
                NodeOp::WaitLeader,
                NodeOp::SeqNext(KEYS[0].into()),
                NodeOp::SeqNext(KEYS[1].into()),
                NodeOp::SeqRange(KEYS[2].into(), 3),
                NodeOp::Publish {
                    key: KeyIx { tenant: 0, group: 0, id: 0 },
                    value: format!("final-{}", publish_no + 1),
                },
                NodeOp::Barrier,
                NodeOp::HistoryIds,
                NodeOp::Exit { raw: false },
            ];
            let ptag = format!("{}-final", tag);
            let ph = phase(dir, work, &ptag, 1, true, 1_000_000, ops);
            let run = match run_phase_child(work, &ptag, &ph, 180) {
                Ok(r) => r,
                Err(e) => return CaseReport::violation(labels.into_iter().collect(), true, format!("final segment: {}", e)),
            };
            let when = "after the last restart";
            for (ix, key) in [(1usize, KEYS[0]), (2usize, KEYS[1])] {
                match run.results.get(ix) {
                    Some(NodeRes::Seq(id)) => {
                        if let Err(e) = mon.next(key, *id, when) {
                            return CaseReport::violation(labels.into_iter().collect(), true, e);
                        }
                    }
                    other => return CaseReport::violation(labels.into_iter().collect(), true, format!("{}: next id request got {:?}; stderr {}", when, other, run.stderr_tail)),
                }
            }
            match run.results.get(3) {
                Some(NodeRes::Range { start, len }) => {
                    if let Err(e) = mon.range(KEYS[2], *start, *len, when) {
                        return CaseReport::violation(labels.into_iter().collect(), true, e);
                    }
                }
                other => return CaseReport::violation(labels.into_iter().collect(), true, format!("{}: range request got {:?}", when, other)),
            }
            if let Some(NodeRes::HistoryIds(v)) = run.results.get(6) {
                if let Err(e) = mon.histories(v, when) {
                    return CaseReport::violation(labels.into_iter().collect(), true, e);
                }
            }
            if restarted_after_compaction || stale_restart {
                nontrivial = true;
            }
            break;
        }
    }
    if excluded_stale > 0 {
        labels.insert("excluded_known_stale_header_restart".into());
        EXCLUDED.fetch_add(excluded_stale, Ordering::Relaxed);
    }
    CaseReport::pass(labels.into_iter().collect(), nontrivial)
}

pub fn main(ctx: &Ctx) -> i32 {
    let work = work_dir(ctx);
    let fin = || Finish {
        level: "exploration",
        rule: "histories (6..50 steps) on a real single-node Raft node in child processes: next-id draws (single and 20..130 in a row, crossing the 100-id cache ranges) and direct ranges on 3 named sequences through the SequenceManager actor, config publishes through ConfigAsyncCmd::Add (history ids from the config sequence; single, 60..130 in a row, and re-publishes of the unchanged content, which draw an id without writing a history entry), awaited and concurrent compactions, clean restarts and restarts whose last-applied header was rewound by 1..30 entries (never below the newest snapshot) so that start-up re-applies a log suffix. A monitor over every id ever handed out: per sequence no id twice (next ids and range members together), next ids strictly increasing, range starts strictly increasing; config history ids pairwise distinct over all keys and strictly newest-first per key, newest id per key never decreasing. non-trivial = an id issued after a restart that followed a compaction, or a restart with a replayed suffix; distinct = hash of the case. CLUSTER TIER (label cluster_tier): schedules of 10..36 ops on a real 3-node cluster - tool-spec adds (next id of the receiving node's SequenceManager), 30..125 adds in a row, batch adds (direct range), concurrent bursts through all three nodes, MCP server adds (server id + value ids), config publishes (single / 20..110 in a row; history ids from the leader's config sequence), kill -9 of a node or of the leader, heal, full-cluster restart, pauses; after healing and quiescence every node's view must show: no tool-spec version twice, per issuing node the acknowledged draws strictly increasing in issue order (next and range streams apart, a batch = one contiguous range), server ids / value ids distinct, config history ids pairwise distinct over all keys (generated and sentinel), strictly newest-first per key and increasing in the writer's order; non-trivial there = the same sequence drawn through >= 2 nodes and an acknowledged draw after a leader kill".into(),
        assumptions: vec![
            "two tiers: a single real node in child processes (restarts, compactions, replayed suffix) and real 3-node clusters (c19c.rs: ids drawn through every node's own SequenceManager by the console API, sequentially and in concurrent bursts, kill -9 of nodes / leaders, full restarts, snapshot thresholds 20 / 60 / none); message schedules between processes are sampled by real execution, not controlled".into(),
            "monotonicity is per stream (next-id stream, range stream): cached ranges make a later next-id smaller than an earlier direct range by design".into(),
            "no explicit SetId / RemoveId resets are generated".into(),
        ],
        exhaustive: None,
    };
    if let Some(p) = &ctx.replay {
        if let Ok(cc) = read_replay::<crate::c19c::ClusterCase>(p) {
            std::env::set_var("RNV_CASE_TIMEOUT_MS", "600000");
            let r = finish_replay(ctx, crate::c19c::run_case(&cc, &work, ctx.seed), p);
            std::fs::remove_dir_all(&work).ok();
            return r;
        }
        let r = match read_replay::<Case>(p) {
            Ok(c) => {
                let mut rep = run_case_mode(&c, &work, true);
                if let Verdict::Violation(_) = &rep.verdict {
                    // recognised by the history: it only fails with the stale-header restart
                    let has_stale = c.steps.iter().any(|s| matches!(s, Step::RestartStaleApplied { .. }));
                    if has_stale && is_open("C19", KNOWN_STALE) {
                        if let Verdict::Pass = run_case_mode(&c, &work, false).verdict {
                            rep.verdict = Verdict::Known(KNOWN_STALE.into());
                        }
                    }
                }
                finish_replay(ctx, rep, p)
            }
            Err(e) => {
                eprintln!("cannot read replay: {}", e);
                2
            }
        };
        std::fs::remove_dir_all(&work).ok();
        return r;
    }
    let stats = Arc::new(Stats::default());
    for p in saved_replays(&ctx.id) {
        if let Ok(case) = read_replay::<Case>(&p) {
            let rep = run_case(&case, &work);
            stats.label("saved_replay_rerun");
            stats.record(&case, &rep);
            if let Verdict::Violation(m) = &rep.verdict {
                write_evidence(ctx, &stats, &fin(), 1);
                println!("violation detail: {}", m);
                println!("VIOLATION property={} replay={}", ctx.id, p.display());
                std::fs::remove_dir_all(&work).ok();
                return 1;
            }
        }
    }
    // RNV_C19_TIER=cluster|single restricts a run to one tier (development / sensitivity runs only)
    let only = std::env::var("RNV_C19_TIER").unwrap_or_default();
    let n = if only == "cluster" { 0 } else { ctx.tier.pick(160u32, 3000u32) };
    let w2 = work.clone();
    let fail = run_cases(ctx, &stats, (|| case_strategy().boxed()) as fn() -> _, n, cores(), 100, move |c| run_case(c, &w2));
    stats.excluded_known.fetch_add(EXCLUDED.load(Ordering::Relaxed), Ordering::Relaxed);
    if is_open("C19", KNOWN_STALE) {
        stats.known.lock().unwrap().insert(KNOWN_STALE.to_string(), EXCLUDED.load(Ordering::Relaxed));
    }
    if fail.is_some() {
        std::fs::remove_dir_all(&work).ok();
        return finish(ctx, &stats, fin(), fail);
    }
    // ---- cluster tier (c19c.rs): several nodes drawing from the same sequences, leader changes
    std::env::set_var("RNV_CASE_TIMEOUT_MS", "600000");
    let seed = ctx.seed;
    let w3 = work.clone();
    let stats_c = stats.clone();
    for p in saved_replays(&ctx.id) {
        if let Ok(case) = read_replay::<crate::c19c::ClusterCase>(&p) {
            let mut rep = crate::c19c::run_case(&case, &work, seed);
            if matches!(rep.verdict, Verdict::Discard(_)) {
                rep = crate::c19c::run_case(&case, &work, seed);
            }
            stats_c.label("saved_replay_rerun");
            stats_c.record(&case, &rep);
            if let Verdict::Violation(m) = &rep.verdict {
                write_evidence(ctx, &stats, &fin(), 1);
                println!("violation detail: {}", m);
                println!("VIOLATION property={} replay={}", ctx.id, p.display());
                std::fs::remove_dir_all(&work).ok();
                return 1;
            }
        }
    }
    let n_cluster = if only == "single" { 0 } else { ctx.tier.pick(12u32, 96u32) };
    let failc = run_cases(ctx, &stats, (|| crate::c19c::case_strategy()) as fn() -> _, n_cluster, 6, 6, move |c| crate::c19c::run_case(c, &w3, seed));
    std::fs::remove_dir_all(&work).ok();
    finish(ctx, &stats, fin(), failc)
}
