//! C05 - vote, term, membership and node addresses are durable and never regress.
//! Store mode: every writer of the shared index file (hard state, membership, addresses, log and
//! snapshot catalogue, last-applied header) interleaved with reopens; oracle = last acknowledged
//! value model.

use crate::engine::*;
use crate::storemode::*;
use async_raft_ext::storage::HardState;
use async_raft_ext::RaftStorage;
use proptest::prelude::*;
use rnacos::raft::filestore::raftindex::RaftIndexRequest;
use serde::{Deserialize, Serialize};
use std::collections::{BTreeMap, BTreeSet, HashMap};
use std::sync::Arc;

#[derive(Debug, Clone, Serialize, Deserialize)]
pub enum Op {
    /// term += bump (0 = same term, a vote granted later in the same term), vote for `vote` (0 = none)
    SaveHardState { bump: u8, vote: u8 },
    SaveMember { members: Vec<u8>, after: Option<Vec<u8>>, addrs: Option<Vec<(u8, u8)>> },
    AddNodeAddr { id: u8, len: u8 },
    /// log catalogue writer: append n entries (first append creates log_1 and saves the catalogue)
    Append { n: u8 },
    /// snapshot catalogue + log catalogue writer (compaction pointer; second one saves the first)
    Compact,
    /// snapshot install: SaveSnapshots + SaveMember(from header) + SaveLogs
    Install { beyond: bool },
    /// last-applied header writer (8 raw bytes at offset 0)
    Applied { n: u8 },
    Reopen,
    Idle,
}

#[derive(Debug, Clone, Serialize, Deserialize)]
pub struct Case {
    pub ops: Vec<Op>,
}

fn op_strategy() -> impl Strategy<Value = Op> {
    prop_oneof![
        5 => (0u8..3, 0u8..6).prop_map(|(bump, vote)| Op::SaveHardState { bump, vote }),
        3 => (
            prop::collection::vec(1u8..6, 0..5),
            // no caller ever sets members_after_consensus to a non-empty value: the apply paths send None and
            // snapshot headers copy it from the index file (DESIGN C05 note) - so only None is generated
            Just(None::<Vec<u8>>),
            prop::option::weighted(0.4, prop::collection::vec((1u8..6, any::<u8>()), 0..5)),
        )
            .prop_map(|(members, after, addrs)| Op::SaveMember { members, after, addrs }),
        4 => (1u8..6, any::<u8>()).prop_map(|(id, len)| Op::AddNodeAddr { id, len }),
        3 => (1u8..20).prop_map(|n| Op::Append { n }),
        2 => Just(Op::Compact),
        1 => any::<bool>().prop_map(|beyond| Op::Install { beyond }),
        3 => (1u8..10).prop_map(|n| Op::Applied { n }),
        4 => Just(Op::Reopen),
        1 => Just(Op::Idle),
    ]
}

fn case_strategy() -> impl Strategy<Value = Case> {
    // Every real history starts with a hard-state save of a term >= 1 (a node adopts/increments the
    // term - and persists it - before it appends, votes or applies anything), so the stored record
    // is never the all-default one again. Without this precondition the generator produces index
    // records no caller can produce.
    prop::collection::vec(op_strategy(), 1..40).prop_map(|mut ops| {
        ops.insert(0, Op::SaveHardState { bump: 1, vote: 0 });
        Case { ops }
    })
}

fn addr_of(id: u8, len: u8) -> String {
    // 5..200 characters, content depends on id and len so that stale bytes are detectable
    let n = 5 + (len as usize * 195) / 255;
    let base = format!("10.0.{}.{}:", id, len);
    let mut s = base.clone();
    while s.len() < n {
        s.push((b'0' + ((s.len() as u8 + len) % 10)) as char);
    }
    s.truncate(n.max(base.len().min(n)));
    s
}

#[derive(Default, Clone)]
struct Model {
    term: u64,
    vote: u64,
    member: Vec<u64>,
    after: Vec<u64>,
    addrs: BTreeMap<u64, String>,
    last_log: u64,
    log_term: u64,
    compact_ptr: u64,
    max_term_seen: u64,
    applied: u64,
}

struct Run {
    m: Model,
    labels: BTreeSet<String>,
    kinds_since_reopen: BTreeSet<&'static str>,
    shrank_since_reopen: bool,
    last_record_len: usize,
    nontrivial: bool,
}

async fn observe(h: &StoreHandle, r: &mut Run, what: &str) -> Result<(), String> {
    let st = h.store.get_initial_state().await.map_err(|e| format!("{}: get_initial_state failed: {}", what, e))?;
    let want_vote = if r.m.vote > 0 { Some(r.m.vote) } else { None };
    if st.hard_state.current_term != r.m.term || st.hard_state.voted_for != want_vote {
        return Err(format!(
            "{}: hard state is (term {}, voted_for {:?}); last acknowledged save was (term {}, voted_for {:?})",
            what, st.hard_state.current_term, st.hard_state.voted_for, r.m.term, want_vote
        ));
    }
    if st.hard_state.current_term < r.m.max_term_seen {
        return Err(format!("{}: term went backwards: {} after {}", what, st.hard_state.current_term, r.m.max_term_seen));
    }
    r.m.max_term_seen = st.hard_state.current_term;
    let mc = h.store.get_membership_config().await.map_err(|e| format!("{}: get_membership_config failed: {}", what, e))?;
    let want_members: std::collections::HashSet<u64> = r.m.member.iter().copied().collect();
    let want_after: Option<std::collections::HashSet<u64>> = if r.m.after.is_empty() { None } else { Some(r.m.after.iter().copied().collect()) };
    if mc.members != want_members || mc.members_after_consensus != want_after {
        return Err(format!(
            "{}: membership is {:?}/{:?}; last acknowledged is {:?}/{:?}",
            what, mc.members, mc.members_after_consensus, want_members, want_after
        ));
    }
    if st.membership.members != want_members {
        return Err(format!("{}: initial-state membership {:?} != acknowledged {:?}", what, st.membership.members, want_members));
    }
    for id in 1u64..6 {
        let got = h.store.get_target_addr(id).await.ok().map(|a| a.as_ref().clone());
        let want = r.m.addrs.get(&id).cloned();
        if got != want {
            return Err(format!("{}: address of node {} is {:?}; last acknowledged is {:?}", what, id, got, want));
        }
    }
    if r.m.last_log > 0 && (st.last_log_index != r.m.last_log) {
        return Err(format!("{}: last log index {} != {}", what, st.last_log_index, r.m.last_log));
    }
    Ok(())
}

fn note(r: &mut Run, kind: &'static str) {
    r.kinds_since_reopen.insert(kind);
    r.labels.insert(format!("writer_{}", kind));
}

async fn record_len(h: &StoreHandle) -> usize {
    use quick_protobuf::MessageWrite;
    match load_index(h).await {
        Ok((idx, _)) => idx.to_record_do().get_size(),
        Err(_) => 0,
    }
}

async fn run_ops(h: &StoreHandle, r: &mut Run, ops: &[Op], pos: &mut usize) -> Result<bool, String> {
    while *pos < ops.len() {
        let opi = *pos;
        let op = ops[opi].clone();
        *pos += 1;
        let what = format!("after op #{} {:?}", opi, op);
        match &op {
            Op::SaveHardState { bump, vote } => {
                let term = r.m.term + *bump as u64;
                let hs = HardState {
                    current_term: term,
                    voted_for: if *vote > 0 { Some(*vote as u64) } else { None },
                };
                h.store.save_hard_state(&hs).await.map_err(|e| format!("{}: save_hard_state failed: {}", what, e))?;
                r.m.term = term;
                r.m.vote = *vote as u64;
                note(r, "hard_state");
            }
            Op::SaveMember { members, after, addrs } => {
                let member: Vec<u64> = {
                    let s: BTreeSet<u64> = members.iter().map(|x| *x as u64).collect();
                    s.into_iter().collect()
                };
                let after_v: Option<Vec<u64>> = after.as_ref().map(|a| {
                    let s: BTreeSet<u64> = a.iter().map(|x| *x as u64).collect();
                    s.into_iter().collect()
                });
                let addr_map: Option<HashMap<u64, Arc<String>>> = addrs.as_ref().map(|v| {
                    let mut m = HashMap::new();
                    for (id, len) in v {
                        m.insert(*id as u64, Arc::new(addr_of(*id, *len)));
                    }
                    m
                });
                h.index
                    .send(RaftIndexRequest::SaveMember {
                        member: member.clone(),
                        member_after_consensus: after_v.clone(),
                        node_addr: addr_map.clone(),
                    })
                    .await
                    .map_err(|e| e.to_string())?
                    .map_err(|e| format!("{}: SaveMember failed: {}", what, e))?;
                r.m.member = member;
                if let Some(a) = after_v {
                    r.m.after = a;
                }
                if let Some(am) = addr_map {
                    r.m.addrs = am.into_iter().map(|(k, v)| (k, v.as_ref().clone())).collect();
                }
                note(r, "member");
            }
            Op::AddNodeAddr { id, len } => {
                let a = addr_of(*id, *len);
                h.index
                    .send(RaftIndexRequest::AddNodeAddr(*id as u64, Arc::new(a.clone())))
                    .await
                    .map_err(|e| e.to_string())?
                    .map_err(|e| format!("{}: AddNodeAddr failed: {}", what, e))?;
                r.m.addrs.insert(*id as u64, a);
                note(r, "node_addr");
            }
            Op::Append { n } => {
                if r.m.log_term == 0 {
                    r.m.log_term = 1;
                }
                for _ in 0..*n {
                    let idx = r.m.last_log + 1;
                    let e = entry(idx, r.m.log_term, payload_of_len(60 + (idx % 50), &[idx as u8, 3, 9]));
                    h.store.append_entry_to_log(&e).await.map_err(|e| format!("{}: append at {} failed: {}", what, idx, e))?;
                    r.m.last_log = idx;
                }
                note(r, "log_catalogue");
            }
            Op::Compact => {
                if r.m.last_log > r.m.compact_ptr {
                    let p = r.m.last_log;
                    let header = rnacos::raft::filestore::model::SnapshotHeaderDto {
                        last_index: p,
                        last_term: r.m.log_term,
                        member: r.m.member.clone(),
                        member_after_consensus: r.m.after.clone(),
                        node_addrs: r.m.addrs.iter().map(|(k, v)| (*k, Arc::new(v.clone()))).collect(),
                    };
                    use rnacos::raft::filestore::raftsnapshot::{RaftSnapshotRequest, RaftSnapshotResponse, SnapshotWriterRequest};
                    let (writer, id) = match h.snapshot.send(RaftSnapshotRequest::NewSnapshot(header)).await {
                        Ok(Ok(RaftSnapshotResponse::NewSnapshot(w, id, _))) => (w, id),
                        Ok(Err(e)) => return Err(format!("{}: NewSnapshot failed: {}", what, e)),
                        _ => return Err(format!("{}: NewSnapshot unexpected response", what)),
                    };
                    writer.send(SnapshotWriterRequest::Flush).await.map_err(|e| e.to_string())?.map_err(|e| e.to_string())?;
                    h.snapshot
                        .send(RaftSnapshotRequest::CompleteSnapshot(rnacos::raft::filestore::log::SnapshotRange { id, end_index: p }))
                        .await
                        .map_err(|e| e.to_string())?
                        .map_err(|e| e.to_string())?;
                    let e = pointer_entry(p, r.m.log_term, id);
                    let rec = rnacos::raft::filestore::StoreUtils::entry_to_record(&e).map_err(|e| e.to_string())?;
                    h.log
                        .send(rnacos::raft::filestore::raftlog::RaftLogManagerRequest::BuildSnapshotPointerLog(rec))
                        .await
                        .map_err(|e| e.to_string())?
                        .map_err(|e| e.to_string())?;
                    r.m.compact_ptr = p;
                    note(r, "snapshot_catalogue");
                    barrier(h, r.m.last_log).await;
                }
            }
            Op::Install { beyond } => {
                let idx = if *beyond || r.m.last_log <= r.m.compact_ptr { r.m.last_log.max(r.m.compact_ptr) + 7 } else { r.m.last_log };
                let within = !(*beyond || r.m.last_log <= r.m.compact_ptr);
                if r.m.log_term == 0 {
                    r.m.log_term = 1;
                }
                let (sid, mut file) = h.store.create_snapshot().await.map_err(|e| format!("{}: create_snapshot failed: {}", what, e))?;
                // the leader's membership travels in the snapshot header and replaces the local one
                let snap_members = vec![1u64, 2, 3];
                let snap_addrs = vec![(1u64, "10.9.0.1:9848".to_string()), (2u64, "10.9.0.2:9848".to_string())];
                {
                    use tokio::io::AsyncWriteExt;
                    let bytes = snapshot_header_bytes(idx, r.m.log_term, snap_members.clone(), &snap_addrs);
                    file.write_all(&bytes).await.map_err(|e| e.to_string())?;
                    file.flush().await.map_err(|e| e.to_string())?;
                }
                h.store
                    .finalize_snapshot_installation(idx, r.m.log_term, if within { Some(idx) } else { None }, sid, file)
                    .await
                    .map_err(|e| format!("{}: finalize_snapshot_installation failed: {}", what, e))?;
                barrier(h, idx).await;
                r.m.member = snap_members;
                r.m.addrs = snap_addrs.into_iter().collect();
                r.m.last_log = idx;
                r.m.compact_ptr = idx;
                note(r, "install_snapshot");
            }
            Op::Applied { n } => {
                let v = (r.m.applied + *n as u64).min(r.m.last_log);
                if v > 0 {
                    h.index
                        .send(RaftIndexRequest::SaveLastAppliedLog(v))
                        .await
                        .map_err(|e| e.to_string())?
                        .map_err(|e| format!("{}: SaveLastAppliedLog failed: {}", what, e))?;
                    r.m.applied = v;
                    note(r, "last_applied_header");
                }
            }
            Op::Idle => {
                tokio::time::sleep(std::time::Duration::from_millis(520)).await;
            }
            Op::Reopen => {
                barrier(h, r.m.last_log).await;
                return Ok(true);
            }
        }
        let len = record_len(h).await;
        if len < r.last_record_len {
            r.shrank_since_reopen = true;
            r.labels.insert("record_shorter_than_predecessor".into());
        }
        r.last_record_len = len;
        observe(h, r, &what).await?;
    }
    Ok(false)
}

pub fn run_case(case: &Case) -> CaseReport {
    let dir = match tempfile::Builder::new().prefix("rnv-c05-").tempdir() {
        Ok(d) => d,
        Err(e) => {
            return CaseReport {
                labels: vec![],
                nontrivial: false,
                verdict: Verdict::Discard(e.to_string()),
            }
        }
    };
    let mut r = Run {
        m: Model::default(),
        labels: BTreeSet::new(),
        kinds_since_reopen: BTreeSet::new(),
        shrank_since_reopen: false,
        last_record_len: 0,
        nontrivial: false,
    };
    let mut pos = 0usize;
    let mut first = true;
    let mut err = None;
    loop {
        let res: Result<bool, String> = run_phase(async {
            let h = open_store(dir.path()).await?;
            load_index(&h).await?;
            if !first {
                if r.kinds_since_reopen.len() >= 2 && r.shrank_since_reopen {
                    r.nontrivial = true;
                }
                if r.kinds_since_reopen.len() >= 2 {
                    r.labels.insert("two_writer_kinds_between_reopens".into());
                }
                r.kinds_since_reopen.clear();
                r.shrank_since_reopen = false;
                r.labels.insert("reopen".into());
                observe(&h, &mut r, &format!("after reopen before op #{}", pos)).await?;
            }
            let x = run_ops(&h, &mut r, &case.ops, &mut pos).await;
            if x.is_ok() {
                barrier(&h, r.m.last_log).await;
            }
            x
        });
        first = false;
        match res {
            Ok(true) => continue,
            Ok(false) => {
                // final reopen
                let res2: Result<(), String> = run_phase(async {
                    let h = open_store(dir.path()).await?;
                    load_index(&h).await?;
                    if r.kinds_since_reopen.len() >= 2 && r.shrank_since_reopen {
                        r.nontrivial = true;
                    }
                    observe(&h, &mut r, "after final reopen").await?;
                    Ok(())
                });
                if let Err(e) = res2 {
                    err = Some(e);
                }
                break;
            }
            Err(e) => {
                err = Some(e);
                break;
            }
        }
    }
    let labels: Vec<String> = r.labels.iter().cloned().collect();
    match err {
        None => CaseReport::pass(labels, r.nontrivial),
        Some(e) => CaseReport::violation(labels, true, e),
    }
}

pub fn main(ctx: &Ctx) -> i32 {
    if let Some(p) = &ctx.replay {
        return match read_replay::<Case>(p) {
            Ok(c) => finish_replay(ctx, run_case(&c), p),
            Err(e) => {
                eprintln!("cannot read replay: {}", e);
                2
            }
        };
    }
    let stats = Arc::new(Stats::default());
    let fin = || Finish {
        level: "exploration",
        rule: "histories (<=40 ops) interleaving every writer of the shared index file - save_hard_state (term bump 0..2, vote 0..5), SaveMember (members / after-consensus / address map), AddNodeAddr (addresses of 5..200 chars, so records shrink after growing), log catalogue (appends), snapshot catalogue (compaction pointer), snapshot install (SaveSnapshots + SaveMember from the header + SaveLogs), last-applied header - with reopens (new actix System on the same directory after a write barrier); after every op and every reopen get_initial_state / get_membership_config / get_target_addr must equal the last acknowledged values and the term must never decrease. non-trivial = between two reopens >=2 writer kinds and >=1 record shorter than its predecessor; distinct = hash of the case".into(),
        assumptions: vec![
            "stop points are after the write barrier (acknowledged writes have reached the OS); the ack-before-write window of RaftIndexManager (DESIGN F14) is not reachable reproducibly".into(),
            "terms generated non-decreasing".into(),
        ],
        exhaustive: None,
    };
    for p in saved_replays(&ctx.id) {
        if let Ok(case) = read_replay::<Case>(&p) {
            let rep = run_case(&case);
            stats.label("saved_replay_rerun");
            stats.record(&case, &rep);
            if let Verdict::Violation(m) = &rep.verdict {
                write_evidence(ctx, &stats, &fin(), 1);
                println!("violation detail: {}", m);
                println!("VIOLATION property={} replay={}", ctx.id, p.display());
                return 1;
            }
        }
    }
    let n = ctx.tier.pick(400u32, 8000u32);
    let fail = run_cases(ctx, &stats, (|| case_strategy().boxed()) as fn() -> _, n, cores(), 2000, run_case);
    finish(ctx, &stats, fin(), fail)
}
