//! C04 - the Raft store is crash-consistent at every file-write boundary.
//!
//! A generated store-mode history is executed by a child process under the LD_PRELOAD journal
//! (interpose/journal.c). The parent then materialises the directory image for EVERY prefix of the
//! journal of file mutations, reopens it with the real recovery code and checks the clauses of the
//! property against what had been submitted / made durable before that prefix.

use crate::engine::*;
use crate::storemode::*;
use async_raft_ext::storage::HardState;
use async_raft_ext::RaftStorage;
use proptest::prelude::*;
use rnacos::raft::filestore::raftindex::RaftIndexRequest;
use serde::{Deserialize, Serialize};
use std::collections::{BTreeMap, BTreeSet, HashMap};
use std::path::{Path, PathBuf};
use std::sync::atomic::{AtomicU64, Ordering};
use std::sync::{Arc, Mutex};

// ------------------------------------------------------------------------------------------
// generated case -> concrete plan (pure, shared by recorder child and judging parent)

#[derive(Debug, Clone, Serialize, Deserialize)]
pub enum Op {
    Append { n: u8, batch: bool, size: u16 },
    Truncate { back: u8, re: u8 },
    HardState { bump: u8, vote: u8 },
    Member { members: Vec<u8> },
    Addr { id: u8, len: u8 },
    Applied { n: u8 },
    Compact,
    Install { beyond: bool },
    Reopen,
}

#[derive(Debug, Clone, Serialize, Deserialize)]
pub struct Case {
    pub ops: Vec<Op>,
    /// recorded with the verification hook of /repo switched on in the recorder child (RNV_LOG_INDEX_AREA_LIMIT=44):
    /// a log file is full after 128 records, so the history crosses real file switches
    #[serde(default)]
    pub small_files: bool,
}

/// histories for the small-files class: long appends (each crosses a file switch), truncations right behind them
/// (cut points in the closed file), compaction / install / reopen with several files
pub fn case_strategy_small() -> impl Strategy<Value = Case> {
    let op = prop_oneof![
        5 => (100u8..140, any::<bool>(), 0u16..60).prop_map(|(n, batch, size)| Op::Append { n, batch, size }),
        4 => (1u8..6, any::<bool>(), prop_oneof![0u16..40, 40u16..300]).prop_map(|(n, batch, size)| Op::Append { n, batch, size }),
        5 => (1u8..5, 1u8..4).prop_map(|(back, re)| Op::Truncate { back, re }),
        1 => (0u8..3, 0u8..4).prop_map(|(bump, vote)| Op::HardState { bump, vote }),
        3 => (1u8..6).prop_map(|n| Op::Applied { n }),
        2 => Just(Op::Compact),
        1 => any::<bool>().prop_map(|beyond| Op::Install { beyond }),
        2 => Just(Op::Reopen),
    ];
    prop::collection::vec(op, 4..12).prop_map(|mut ops| {
        ops.insert(0, Op::HardState { bump: 1, vote: 1 });
        ops.insert(1, Op::Append { n: 126, batch: true, size: 20 });
        Case { ops, small_files: true }
    })
}

fn op_strategy() -> impl Strategy<Value = Op> {
    prop_oneof![
        8 => (1u8..6, any::<bool>(), prop_oneof![0u16..40, 40u16..300, 900u16..1100]).prop_map(|(n, batch, size)| Op::Append { n, batch, size }),
        // long runs cross the 128-record index interval (data write followed by an index-area write)
        1 => (100u8..140, any::<bool>(), 0u16..60).prop_map(|(n, batch, size)| Op::Append { n, batch, size }),
        3 => (1u8..5, 1u8..4).prop_map(|(back, re)| Op::Truncate { back, re }),
        3 => (0u8..3, 0u8..4).prop_map(|(bump, vote)| Op::HardState { bump, vote }),
        2 => prop::collection::vec(1u8..5, 1..4).prop_map(|members| Op::Member { members }),
        2 => (1u8..5, any::<u8>()).prop_map(|(id, len)| Op::Addr { id, len }),
        4 => (1u8..6).prop_map(|n| Op::Applied { n }),
        2 => Just(Op::Compact),
        1 => any::<bool>().prop_map(|beyond| Op::Install { beyond }),
        2 => Just(Op::Reopen),
    ]
}

pub fn case_strategy() -> impl Strategy<Value = Case> {
    prop::collection::vec(op_strategy(), 5..28).prop_map(|mut ops| {
        ops.insert(0, Op::HardState { bump: 1, vote: 1 });
        Case { ops, small_files: false }
    })
}

#[derive(Debug, Clone, Serialize, Deserialize, PartialEq)]
pub struct PEntry {
    pub index: u64,
    pub term: u64,
    pub len: u64,
    pub seed: u64,
}

#[derive(Debug, Clone, Serialize, Deserialize)]
pub enum Planned {
    Append(PEntry),
    AppendBatch(Vec<PEntry>),
    Delete { k: u64 },
    HardState { term: u64, vote: u64 },
    Member { members: Vec<u64> },
    Addr { id: u64, addr: String },
    Applied { v: u64 },
    Compact { p: u64, term: u64 },
    Install { idx: u64, term: u64, within: bool },
    Reopen,
}

#[derive(Debug, Clone, Default)]
pub struct MState {
    pub entries: BTreeMap<u64, PEntry>,
    pub pointer: Option<u64>,
    pub term: u64,
    pub log_term: u64,
    pub vote: u64,
    pub members: Vec<u64>,
    pub addrs: BTreeMap<u64, String>,
    pub applied: u64,
    pub next_index: u64,
}

impl MState {
    fn last(&self) -> u64 {
        self.next_index.saturating_sub(1)
    }
    pub fn apply(&mut self, p: &Planned) {
        match p {
            Planned::Append(e) => {
                self.entries.insert(e.index, e.clone());
                self.next_index = e.index + 1;
            }
            Planned::AppendBatch(es) => {
                for e in es {
                    self.entries.insert(e.index, e.clone());
                    self.next_index = e.index + 1;
                }
            }
            Planned::Delete { k } => {
                let rm: Vec<u64> = self.entries.range(*k..).map(|(i, _)| *i).collect();
                for i in rm {
                    self.entries.remove(&i);
                }
                self.next_index = *k;
            }
            Planned::HardState { term, vote } => {
                self.term = *term;
                self.vote = *vote;
            }
            Planned::Member { members } => self.members = members.clone(),
            Planned::Addr { id, addr } => {
                self.addrs.insert(*id, addr.clone());
            }
            Planned::Applied { v } => self.applied = *v,
            Planned::Compact { p, .. } => {
                self.pointer = Some(self.pointer.unwrap_or(0).max(*p));
            }
            Planned::Install { idx, within, .. } => {
                self.pointer = Some(*idx);
                if !*within {
                    self.entries.clear();
                }
                self.next_index = self.next_index.max(*idx + 1);
                if !*within {
                    self.next_index = *idx + 1;
                }
                self.members = vec![1, 2, 3];
                self.addrs = [(1u64, "10.9.0.1:9848".to_string()), (2u64, "10.9.0.2:9848".to_string())].into_iter().collect();
                self.applied = self.applied; // last-applied is written by the apply path, not by install
            }
            Planned::Reopen => {}
        }
    }
}

pub fn plan(case: &Case) -> Vec<Planned> {
    let mut out = vec![];
    let mut m = MState {
        next_index: 1,
        log_term: 1,
        ..Default::default()
    };
    let mut ver = 0u64;
    let mut push = |out: &mut Vec<Planned>, m: &mut MState, p: Planned| {
        m.apply(&p);
        out.push(p);
    };
    for op in &case.ops {
        match op {
            Op::Append { n, batch, size } => {
                let mut es = vec![];
                for i in 0..*n as u64 {
                    ver += 1;
                    es.push(PEntry {
                        index: m.next_index + i,
                        term: m.log_term,
                        len: *size as u64 + (ver % 7),
                        seed: ver,
                    });
                }
                if *batch {
                    push(&mut out, &mut m, Planned::AppendBatch(es));
                } else {
                    for e in es {
                        push(&mut out, &mut m, Planned::Append(e));
                    }
                }
            }
            Op::Truncate { back, re } => {
                // conflict truncation only ever removes uncommitted entries: above last_applied and above
                // any snapshot pointer
                let floor = m.pointer.map(|p| p + 1).unwrap_or(1).max(m.applied + 1);
                let last = m.last();
                if last >= floor {
                    let k = last.saturating_sub(*back as u64 - 1).max(floor);
                    push(&mut out, &mut m, Planned::Delete { k });
                    m.log_term += 1;
                    for _ in 0..*re {
                        ver += 1;
                        let e = PEntry {
                            index: m.next_index,
                            term: m.log_term,
                            len: 10 + (ver % 90),
                            seed: ver,
                        };
                        push(&mut out, &mut m, Planned::Append(e));
                    }
                }
            }
            Op::HardState { bump, vote } => {
                let p = Planned::HardState {
                    term: m.term + *bump as u64,
                    vote: *vote as u64,
                };
                push(&mut out, &mut m, p);
            }
            Op::Member { members } => {
                let s: BTreeSet<u64> = members.iter().map(|x| *x as u64).collect();
                push(&mut out, &mut m, Planned::Member { members: s.into_iter().collect() });
            }
            Op::Addr { id, len } => {
                let n = 5 + (*len as usize * 120) / 255;
                let mut a = format!("10.1.{}.{}:", id, len);
                while a.len() < n {
                    a.push((b'0' + (a.len() % 10) as u8) as char);
                }
                push(&mut out, &mut m, Planned::Addr { id: *id as u64, addr: a });
            }
            Op::Applied { n } => {
                let v = (m.applied + *n as u64).min(m.last());
                if v > m.applied {
                    push(&mut out, &mut m, Planned::Applied { v });
                }
            }
            Op::Compact => {
                // compaction happens at last_applied
                let p = m.applied;
                if p > m.pointer.unwrap_or(0) && m.entries.contains_key(&p) {
                    let term = m.entries[&p].term;
                    push(&mut out, &mut m, Planned::Compact { p, term });
                }
            }
            Op::Install { beyond } => {
                let floor = m.pointer.map(|p| p + 1).unwrap_or(1);
                let last = m.last();
                let within = !*beyond && last >= floor;
                let idx = if within { last } else { last.max(floor) + 5 };
                let term = if within { m.entries.get(&idx).map(|e| e.term).unwrap_or(m.log_term) } else { m.log_term };
                push(&mut out, &mut m, Planned::Install { idx, term, within });
            }
            Op::Reopen => push(&mut out, &mut m, Planned::Reopen),
        }
    }
    out
}

fn seed_bytes(e: &PEntry) -> Vec<u8> {
    (0..16u64).map(|i| (e.seed.wrapping_mul(131) ^ e.index.wrapping_mul(31) ^ i.wrapping_mul(7)) as u8).collect()
}

fn entry_of(e: &PEntry) -> async_raft_ext::raft::Entry<rnacos::raft::store::ClientRequest> {
    entry(e.index, e.term, payload_of_len(e.len + JSON_OVERHEAD, &seed_bytes(e)))
}

// ------------------------------------------------------------------------------------------
// recorder child

fn marker(root: &Path, s: &str) {
    use std::io::Write;
    if let Ok(mut f) = std::fs::OpenOptions::new().create(true).append(true).open(root.join(".marker")) {
        let _ = f.write_all(s.as_bytes());
    }
}

async fn exec_planned(h: &StoreHandle, p: &Planned) -> Result<(), String> {
    match p {
        Planned::Append(e) => h.store.append_entry_to_log(&entry_of(e)).await.map_err(|x| x.to_string()),
        Planned::AppendBatch(es) => {
            let v: Vec<_> = es.iter().map(entry_of).collect();
            h.store.replicate_to_log(&v).await.map_err(|x| x.to_string())
        }
        Planned::Delete { k } => h.store.delete_logs_from(*k, None).await.map_err(|x| x.to_string()),
        Planned::HardState { term, vote } => h
            .store
            .save_hard_state(&HardState {
                current_term: *term,
                voted_for: if *vote > 0 { Some(*vote) } else { None },
            })
            .await
            .map_err(|x| x.to_string()),
        Planned::Member { members } => h
            .index
            .send(RaftIndexRequest::SaveMember {
                member: members.clone(),
                member_after_consensus: None,
                node_addr: None,
            })
            .await
            .map_err(|x| x.to_string())?
            .map(|_| ())
            .map_err(|x| x.to_string()),
        Planned::Addr { id, addr } => h
            .index
            .send(RaftIndexRequest::AddNodeAddr(*id, Arc::new(addr.clone())))
            .await
            .map_err(|x| x.to_string())?
            .map(|_| ())
            .map_err(|x| x.to_string()),
        Planned::Applied { v } => h
            .index
            .send(RaftIndexRequest::SaveLastAppliedLog(*v))
            .await
            .map_err(|x| x.to_string())?
            .map(|_| ())
            .map_err(|x| x.to_string()),
        Planned::Compact { p, term } => {
            use rnacos::raft::filestore::raftsnapshot::{RaftSnapshotRequest, RaftSnapshotResponse, SnapshotWriterRequest};
            let header = rnacos::raft::filestore::model::SnapshotHeaderDto {
                last_index: *p,
                last_term: *term,
                member: vec![1],
                member_after_consensus: vec![],
                node_addrs: Default::default(),
            };
            let (writer, id) = match h.snapshot.send(RaftSnapshotRequest::NewSnapshot(header)).await {
                Ok(Ok(RaftSnapshotResponse::NewSnapshot(w, id, _))) => (w, id),
                Ok(Err(e)) => return Err(format!("NewSnapshot failed: {}", e)),
                _ => return Err("NewSnapshot unexpected response".into()),
            };
            writer.send(SnapshotWriterRequest::Flush).await.map_err(|e| e.to_string())?.map_err(|e| e.to_string())?;
            h.snapshot
                .send(RaftSnapshotRequest::CompleteSnapshot(rnacos::raft::filestore::log::SnapshotRange { id, end_index: *p }))
                .await
                .map_err(|e| e.to_string())?
                .map_err(|e| e.to_string())?;
            let e = pointer_entry(*p, *term, id);
            let rec = rnacos::raft::filestore::StoreUtils::entry_to_record(&e).map_err(|e| e.to_string())?;
            h.log
                .send(rnacos::raft::filestore::raftlog::RaftLogManagerRequest::BuildSnapshotPointerLog(rec))
                .await
                .map_err(|e| e.to_string())?
                .map(|_| ())
                .map_err(|e| e.to_string())
        }
        Planned::Install { idx, term, within } => {
            let (sid, mut file) = h.store.create_snapshot().await.map_err(|e| e.to_string())?;
            {
                use tokio::io::AsyncWriteExt;
                let bytes = snapshot_header_bytes(
                    *idx,
                    *term,
                    vec![1, 2, 3],
                    &[(1u64, "10.9.0.1:9848".to_string()), (2u64, "10.9.0.2:9848".to_string())],
                );
                file.write_all(&bytes).await.map_err(|e| e.to_string())?;
                file.flush().await.map_err(|e| e.to_string())?;
            }
            h.store
                .finalize_snapshot_installation(*idx, *term, if *within { Some(*idx) } else { None }, sid, file)
                .await
                .map_err(|e| e.to_string())
        }
        Planned::Reopen => Ok(()),
    }
}

/// child entry: `rnv __c04-record <plan.json> <root>`
pub fn record_main(plan_file: &str, root: &str) -> i32 {
    let plan: Vec<Planned> = match std::fs::read(plan_file).ok().and_then(|d| serde_json::from_slice(&d).ok()) {
        Some(p) => p,
        None => return 3,
    };
    let root = PathBuf::from(root);
    let mut pos = 0usize;
    let mut last_index = 0u64;
    while pos <= plan.len() {
        let done: Result<bool, String> = run_phase(async {
            let h = open_store(&root).await?;
            load_index(&h).await?;
            while pos < plan.len() {
                let i = pos;
                pos += 1;
                if let Planned::Reopen = plan[i] {
                    marker(&root, &format!("S {}\n", i));
                    barrier(&h, last_index).await;
                    marker(&root, &format!("D {}\n", i));
                    return Ok(false);
                }
                marker(&root, &format!("S {}\n", i));
                let r = exec_planned(&h, &plan[i]).await;
                match &plan[i] {
                    Planned::Append(e) => last_index = e.index,
                    Planned::AppendBatch(es) => last_index = es.last().map(|e| e.index).unwrap_or(last_index),
                    Planned::Delete { k } => last_index = k.saturating_sub(1),
                    Planned::Install { idx, .. } => last_index = *idx,
                    _ => {}
                }
                match r {
                    Ok(()) => marker(&root, &format!("A {}\n", i)),
                    Err(e) => marker(&root, &format!("E {} {}\n", i, e.replace('\n', " "))),
                }
                barrier(&h, last_index).await;
                marker(&root, &format!("D {}\n", i));
            }
            barrier(&h, last_index).await;
            Ok(true)
        });
        match done {
            Ok(true) => break,
            Ok(false) => continue,
            Err(e) => {
                marker(&root, &format!("X {}\n", e));
                return 4;
            }
        }
    }
    0
}

// ------------------------------------------------------------------------------------------
// journal parsing + image materialisation

#[derive(Debug, Clone)]
pub struct Mutation {
    pub op: u32,
    pub path: String, // relative to root
    pub path2: String,
    pub off: u64,
    pub len: u64,
    pub data: Vec<u8>,
}

pub fn parse_journal(bytes: &[u8], root: &str) -> Result<Vec<Mutation>, String> {
    let mut out = vec![];
    let mut p = 0usize;
    let rel = |s: &str| -> String { s.strip_prefix(root).unwrap_or(s).trim_start_matches('/').to_string() };
    while p + 40 <= bytes.len() {
        let magic = u32::from_le_bytes(bytes[p..p + 4].try_into().unwrap());
        if magic != 0x4a564e52 {
            return Err(format!("bad journal magic at {}", p));
        }
        let op = u32::from_le_bytes(bytes[p + 4..p + 8].try_into().unwrap());
        let off = u64::from_le_bytes(bytes[p + 16..p + 24].try_into().unwrap());
        let len = u64::from_le_bytes(bytes[p + 24..p + 32].try_into().unwrap());
        let pl = u32::from_le_bytes(bytes[p + 32..p + 36].try_into().unwrap()) as usize;
        let pl2 = u32::from_le_bytes(bytes[p + 36..p + 40].try_into().unwrap()) as usize;
        p += 40;
        let dl = if op == 2 { len as usize } else { 0 };
        if p + pl + pl2 + dl > bytes.len() {
            break; // truncated tail record
        }
        let path = String::from_utf8_lossy(&bytes[p..p + pl]).to_string();
        p += pl;
        let path2 = String::from_utf8_lossy(&bytes[p..p + pl2]).to_string();
        p += pl2;
        let data = bytes[p..p + dl].to_vec();
        p += dl;
        out.push(Mutation {
            op,
            path: rel(&path),
            path2: rel(&path2),
            off,
            len,
            data,
        });
    }
    Ok(out)
}

#[derive(Default, Clone)]
pub struct Image {
    pub files: BTreeMap<String, Vec<u8>>,
}

impl Image {
    pub fn apply(&mut self, m: &Mutation) {
        match m.op {
            1 => {
                self.files.entry(m.path.clone()).or_default();
            }
            6 => {
                self.files.insert(m.path.clone(), vec![]);
            }
            2 => {
                let f = self.files.entry(m.path.clone()).or_default();
                let end = m.off as usize + m.data.len();
                if f.len() < end {
                    f.resize(end, 0);
                }
                f[m.off as usize..end].copy_from_slice(&m.data);
            }
            3 => {
                let f = self.files.entry(m.path.clone()).or_default();
                f.resize(m.len as usize, 0);
            }
            4 => {
                if let Some(f) = self.files.remove(&m.path) {
                    self.files.insert(m.path2.clone(), f);
                }
            }
            5 => {
                self.files.remove(&m.path);
            }
            _ => {}
        }
    }
    pub fn materialise(&self, dir: &Path) -> std::io::Result<()> {
        use std::io::{Seek, SeekFrom, Write};
        for (name, data) in &self.files {
            if name == ".marker" || name.is_empty() {
                continue;
            }
            let p = dir.join(name);
            if let Some(parent) = p.parent() {
                std::fs::create_dir_all(parent)?;
            }
            let mut f = std::fs::File::create(&p)?;
            // write only up to the last non-zero byte, then extend sparsely
            let last = data.iter().rposition(|b| *b != 0).map(|i| i + 1).unwrap_or(0);
            f.seek(SeekFrom::Start(0))?;
            f.write_all(&data[..last])?;
            f.set_len(data.len() as u64)?;
        }
        Ok(())
    }
}

// ------------------------------------------------------------------------------------------
// recovery + oracle

#[derive(Debug, Clone, Default)]
pub struct Frontier {
    /// ops [0..durable) have their D marker inside the prefix
    pub durable: usize,
    /// ops [0..submitted) have their S marker inside the prefix
    pub submitted: usize,
    /// number of non-marker mutations of the in-flight op that are inside the prefix
    pub inflight_mutations: usize,
    pub inflight_total: usize,
    pub last_file: String,
}

pub struct Recorded {
    pub plan: Vec<Planned>,
    pub muts: Vec<Mutation>,
    /// for every prefix length k (0..=muts.len()) the frontier
    pub frontiers: Vec<Frontier>,
    pub errors: Vec<String>,
}

fn compute_frontiers(muts: &[Mutation]) -> (Vec<Frontier>, Vec<String>) {
    let mut fr = Vec::with_capacity(muts.len() + 1);
    let mut cur = Frontier::default();
    let mut errors = vec![];
    // total mutations per op (between its S and its D)
    let mut totals: HashMap<usize, usize> = HashMap::new();
    {
        let mut open: Option<usize> = None;
        for m in muts {
            if m.path == ".marker" {
                let s = String::from_utf8_lossy(&m.data).to_string();
                for line in s.lines() {
                    let mut it = line.split_whitespace();
                    match (it.next(), it.next().and_then(|x| x.parse::<usize>().ok())) {
                        (Some("S"), Some(i)) => open = Some(i),
                        (Some("D"), Some(_)) => open = None,
                        _ => {}
                    }
                }
            } else if let Some(i) = open {
                *totals.entry(i).or_insert(0) += 1;
            }
        }
    }
    fr.push(cur.clone());
    for m in muts {
        if m.path == ".marker" {
            let s = String::from_utf8_lossy(&m.data).to_string();
            for line in s.lines() {
                let mut it = line.split_whitespace();
                let tag = it.next();
                let num = it.next().and_then(|x| x.parse::<usize>().ok());
                match (tag, num) {
                    (Some("S"), Some(i)) => {
                        cur.submitted = i + 1;
                        cur.inflight_mutations = 0;
                        cur.inflight_total = *totals.get(&i).unwrap_or(&0);
                    }
                    (Some("D"), Some(i)) => cur.durable = i + 1,
                    (Some("E"), Some(i)) => errors.push(format!("op #{} was refused by the store while recording: {}", i, line)),
                    (Some("X"), _) => errors.push(format!("recorder aborted: {}", line)),
                    _ => {}
                }
            }
        } else {
            if cur.submitted > cur.durable {
                cur.inflight_mutations += 1;
            }
            cur.last_file = m.path.clone();
        }
        fr.push(cur.clone());
    }
    (fr, errors)
}

pub fn record(case: &Case, work: &Path, tag: &str) -> Result<Recorded, String> {
    let plan = plan(case);
    let root = work.join(format!("rec-{}", tag));
    std::fs::remove_dir_all(&root).ok();
    std::fs::create_dir_all(&root).map_err(|e| e.to_string())?;
    let plan_file = work.join(format!("plan-{}.json", tag));
    let journal = work.join(format!("journal-{}.bin", tag));
    std::fs::remove_file(&journal).ok();
    std::fs::write(&plan_file, serde_json::to_vec(&plan).unwrap()).map_err(|e| e.to_string())?;
    let exe = std::env::current_exe().map_err(|e| e.to_string())?;
    let so = Path::new(VERIF_ROOT).join("target/journal.so");
    let out = std::process::Command::new(exe)
        .arg("__c04-record")
        .arg(&plan_file)
        .arg(&root)
        .env("LD_PRELOAD", &so)
        .env("RNV_ROOT", &root)
        .env("RNV_JOURNAL", &journal)
        .env("RUST_LOG", "off")
        .envs(if case.small_files { Some(("RNV_LOG_INDEX_AREA_LIMIT", "44")) } else { None })
        .output()
        .map_err(|e| format!("cannot start recorder: {}", e))?;
    if !out.status.success() {
        return Err(format!(
            "recorder exit {:?}: {}",
            out.status.code(),
            String::from_utf8_lossy(&out.stderr).chars().take(400).collect::<String>()
        ));
    }
    let bytes = std::fs::read(&journal).map_err(|e| format!("no journal: {}", e))?;
    let muts = parse_journal(&bytes, &root.to_string_lossy())?;
    std::fs::remove_dir_all(&root).ok();
    std::fs::remove_file(&journal).ok();
    std::fs::remove_file(&plan_file).ok();
    let (frontiers, errors) = compute_frontiers(&muts);
    Ok(Recorded {
        plan,
        muts,
        frontiers,
        errors,
    })
}

#[derive(Debug, Default, Clone)]
pub struct Recovered {
    pub term: u64,
    pub vote: Option<u64>,
    pub members: BTreeSet<u64>,
    pub addrs: BTreeMap<u64, String>,
    pub last_applied: u64,
    pub last_log_index: u64,
    pub last_log_term: u64,
    pub entries: Vec<(u64, u64, Vec<u8>, bool)>, // index, term, payload bytes, is_pointer
    pub snapshot_end: u64,
}

pub fn recover(dir: &Path) -> Result<Recovered, String> {
    run_phase(async {
        let h = open_store(dir).await.map_err(|e| format!("store does not open: {}", e))?;
        let (idx, _) = load_index(&h).await.map_err(|e| format!("index file does not load: {}", e))?;
        let st = h.store.get_initial_state().await.map_err(|e| format!("get_initial_state failed: {}", e))?;
        let mc = h.store.get_membership_config().await.map_err(|e| format!("get_membership_config failed: {}", e))?;
        let es = h.store.get_log_entries(0, u64::MAX / 2).await.map_err(|e| format!("get_log_entries failed: {}", e))?;
        let mut r = Recovered {
            term: st.hard_state.current_term,
            vote: st.hard_state.voted_for,
            members: mc.members.iter().copied().collect(),
            last_applied: st.last_applied_log,
            last_log_index: st.last_log_index,
            last_log_term: st.last_log_term,
            snapshot_end: idx.snapshots.last().map(|s| s.end_index).unwrap_or(0),
            ..Default::default()
        };
        for (k, v) in idx.node_addrs.iter() {
            r.addrs.insert(*k, v.as_ref().clone());
        }
        for e in es {
            let is_ptr = matches!(e.payload, async_raft_ext::raft::EntryPayload::SnapshotPointer(_));
            r.entries.push((e.index, e.term, payload_bytes(&e.payload), is_ptr));
        }
        Ok(r)
    })
}

pub fn judge(rec: &Recorded, k: usize, r: &Recovered) -> Result<(), String> {
    let f = &rec.frontiers[k];
    // states
    let mut before = MState {
        next_index: 1,
        log_term: 1,
        ..Default::default()
    };
    let mut terms: BTreeSet<(u64, u64)> = BTreeSet::new();
    terms.insert((0, 0));
    let mut member_vals: Vec<Vec<u64>> = vec![vec![]];
    let mut addr_vals: BTreeMap<u64, BTreeSet<String>> = BTreeMap::new();
    let mut applied_vals: BTreeSet<u64> = BTreeSet::new();
    applied_vals.insert(0);
    let mut versions: BTreeMap<u64, Vec<PEntry>> = BTreeMap::new();
    let mut pointers: BTreeMap<u64, u64> = BTreeMap::new();
    let mut all = before.clone();
    for (i, p) in rec.plan.iter().enumerate() {
        if i >= f.submitted {
            break;
        }
        if i < f.durable {
            before.apply(p);
        }
        all.apply(p);
        match p {
            Planned::Append(e) => versions.entry(e.index).or_default().push(e.clone()),
            Planned::AppendBatch(es) => {
                for e in es {
                    versions.entry(e.index).or_default().push(e.clone());
                }
            }
            Planned::HardState { term, vote } => {
                terms.insert((*term, *vote));
            }
            Planned::Member { members } => member_vals.push(members.clone()),
            Planned::Addr { id, addr } => {
                addr_vals.entry(*id).or_default().insert(addr.clone());
            }
            Planned::Applied { v } => {
                applied_vals.insert(*v);
            }
            Planned::Compact { p, term } => {
                pointers.insert(*p, *term);
            }
            Planned::Install { idx, term, .. } => {
                pointers.insert(*idx, *term);
                member_vals.push(vec![1, 2, 3]);
                // install_snapshot() also re-saves the membership of the previously catalogued snapshot
                member_vals.push(vec![1]);
                addr_vals.entry(1).or_default().insert("10.9.0.1:9848".into());
                addr_vals.entry(2).or_default().insert("10.9.0.2:9848".into());
            }
            _ => {}
        }
    }
    let inflight: Option<&Planned> = if f.submitted > f.durable { rec.plan.get(f.submitted - 1) } else { None };
    let maxptr = pointers.keys().next_back().copied();

    // (2) order + contiguity above the newest submitted pointer
    for w in r.entries.windows(2) {
        if w[1].0 <= w[0].0 {
            return Err(format!("recovered log is out of order: index {} followed by {}", w[0].0, w[1].0));
        }
    }
    let above: Vec<&(u64, u64, Vec<u8>, bool)> = r.entries.iter().filter(|e| maxptr.map(|p| e.0 > p).unwrap_or(true)).collect();
    for w in above.windows(2) {
        if w[1].0 != w[0].0 + 1 {
            return Err(format!("recovered log is not contiguous: index {} followed by {}", w[0].0, w[1].0));
        }
    }
    // (4) only really submitted entries
    for e in &r.entries {
        let ok_version = versions
            .get(&e.0)
            .map(|vs| vs.iter().any(|v| v.term == e.1 && payload_bytes(&entry_of(v).payload) == e.2))
            .unwrap_or(false);
        let ok_ptr = e.3 && pointers.get(&e.0).map(|t| *t == e.1).unwrap_or(false);
        if !ok_version && !ok_ptr {
            return Err(format!(
                "recovered log exposes an entry that was never submitted: index {} term {} ({} bytes, pointer={})",
                e.0,
                e.1,
                e.2.len(),
                e.3
            ));
        }
    }
    // (3) everything durable and not removed by a truncation / snapshot submitted before the kill
    let cut: Option<u64> = match inflight {
        Some(Planned::Delete { k }) => Some(*k),
        _ => None,
    };
    let inflight_install_all = matches!(inflight, Some(Planned::Install { within: false, .. }));
    let have: BTreeMap<u64, (u64, &Vec<u8>)> = r.entries.iter().map(|e| (e.0, (e.1, &e.2))).collect();
    if !inflight_install_all {
        for (i, e) in &before.entries {
            if maxptr.map(|p| *i <= p).unwrap_or(false) {
                continue;
            }
            if cut.map(|c| *i >= c).unwrap_or(false) {
                continue;
            }
            // an in-flight re-append may already have replaced nothing (indexes are fresh after a cut)
            match have.get(i) {
                Some((t, b)) if *t == e.term && **b == payload_bytes(&entry_of(e).payload) => {}
                Some((t, _)) => {
                    // a newer submitted version at the same index is acceptable only if it was submitted
                    let newer = versions.get(i).map(|vs| vs.iter().any(|v| v.term == *t && v.seed != e.seed)).unwrap_or(false);
                    if !newer {
                        return Err(format!("durable entry {} (term {}) recovered with different content (term {})", i, e.term, t));
                    }
                }
                None => {
                    return Err(format!(
                        "durable entry missing after the crash: index {} (term {}) was acknowledged and flushed before the kill; recovered indexes {:?}..{:?}",
                        i,
                        e.term,
                        r.entries.first().map(|x| x.0),
                        r.entries.last().map(|x| x.0)
                    ))
                }
            }
        }
    }
    // last log index agrees with what is exposed
    if let Some(last) = r.entries.last() {
        if r.last_log_index != last.0 {
            return Err(format!("last_log_index {} but the last exposed entry is {}", r.last_log_index, last.0));
        }
    }
    // (5) metadata equal to some value written before the kill
    let v = (r.term, r.vote.unwrap_or(0));
    if !terms.contains(&v) {
        return Err(format!("hard state (term {}, vote {:?}) was never written; written: {:?}", r.term, r.vote, terms));
    }
    let mem: Vec<u64> = r.members.iter().copied().collect();
    if !member_vals.iter().any(|m| {
        let s: BTreeSet<u64> = m.iter().copied().collect();
        s == r.members
    }) {
        return Err(format!("membership {:?} was never written; written: {:?}", mem, member_vals));
    }
    for (id, a) in &r.addrs {
        if !addr_vals.get(id).map(|s| s.contains(a)).unwrap_or(false) {
            return Err(format!("address of node {} = {:?} was never written", id, a));
        }
    }
    // (6) last applied
    if !applied_vals.contains(&r.last_applied) {
        return Err(format!(
            "last_applied {} was never written (written: {:?})",
            r.last_applied, applied_vals
        ));
    }
    let reproducible = r.entries.last().map(|e| e.0).unwrap_or(0).max(r.snapshot_end).max(r.last_log_index);
    if r.last_applied > reproducible {
        return Err(format!(
            "last_applied {} points past what snapshot + log can reproduce (last log {}, snapshot end {})",
            r.last_applied,
            r.entries.last().map(|e| e.0).unwrap_or(0),
            r.snapshot_end
        ));
    }
    let _ = all;
    Ok(())
}

fn kind_name(p: &Planned) -> &'static str {
    match p {
        Planned::Append(_) => "append",
        Planned::AppendBatch(_) => "append_batch",
        Planned::Delete { .. } => "delete_from",
        Planned::HardState { .. } => "hard_state",
        Planned::Member { .. } => "member",
        Planned::Addr { .. } => "node_addr",
        Planned::Applied { .. } => "last_applied",
        Planned::Compact { .. } => "compaction_pointer",
        Planned::Install { .. } => "install_snapshot",
        Planned::Reopen => "reopen",
    }
}

#[derive(Debug, Clone, Serialize, Deserialize)]
pub struct CrashReplay {
    pub case: Case,
    pub prefix: usize,
}

/// enumerate all prefixes of one recorded history; returns the first violation (prefix, message)
pub fn enumerate(rec: &Recorded, work: &Path, tag: &str, stats: &Arc<Stats>, only_prefix: Option<usize>) -> Option<(usize, String)> {
    let n = rec.muts.len();
    let workers = cores();
    let next = Arc::new(AtomicU64::new(0));
    let found: Arc<Mutex<Option<(usize, String)>>> = Arc::new(Mutex::new(None));
    std::thread::scope(|s| {
        for w in 0..workers {
            let next = next.clone();
            let found = found.clone();
            let stats = stats.clone();
            let dirbase = work.join(format!("img-{}-{}", tag, w));
            s.spawn(move || {
                let mut img = Image::default();
                let mut applied = 0usize;
                loop {
                    let k = next.fetch_add(1, Ordering::SeqCst) as usize;
                    if k > n {
                        break;
                    }
                    if let Some(p) = only_prefix {
                        if k != p {
                            continue;
                        }
                    }
                    if found.lock().unwrap().as_ref().map(|f| f.0 < k).unwrap_or(false) {
                        break;
                    }
                    // a prefix that ends on a marker is the same image as the previous one
                    if k > 0 && rec.muts[k - 1].path == ".marker" && only_prefix.is_none() {
                        continue;
                    }
                    while applied < k {
                        img.apply(&rec.muts[applied]);
                        applied += 1;
                    }
                    std::fs::remove_dir_all(&dirbase).ok();
                    if std::fs::create_dir_all(&dirbase).is_err() || img.materialise(&dirbase).is_err() {
                        continue;
                    }
                    let f = &rec.frontiers[k];
                    let res = recover(&dirbase).and_then(|r| judge(rec, k, &r));
                    stats.evaluations.fetch_add(1, Ordering::Relaxed);
                    let inside = f.submitted > f.durable && f.inflight_mutations > 0 && f.inflight_mutations < f.inflight_total;
                    if f.submitted > f.durable {
                        let kind = kind_name(&rec.plan[f.submitted - 1]);
                        if inside {
                            let file_class = if f.last_file.starts_with("log_") {
                                "log"
                            } else if f.last_file.starts_with("snapshot_") {
                                "snapshot"
                            } else {
                                f.last_file.as_str()
                            };
                            stats.label(&format!("inside_{}_after_{}_write", kind, file_class));
                            stats.note_distinct(hash_json(&(tag, k)));
                        } else {
                            stats.label(&format!("edge_of_{}", kind));
                        }
                    } else {
                        stats.label("between_operations");
                    }
                    if let Err(e) = res {
                        let mut g = found.lock().unwrap();
                        if g.as_ref().map(|x| k < x.0).unwrap_or(true) {
                            let ctxs = if f.submitted > f.durable {
                                format!(
                                    "crash image at journal prefix {} of {} (inside op #{} {:?}, {} of its {} file mutations applied, last touched {}): {}",
                                    k,
                                    n,
                                    f.submitted - 1,
                                    rec.plan[f.submitted - 1],
                                    f.inflight_mutations,
                                    f.inflight_total,
                                    f.last_file,
                                    e
                                )
                            } else {
                                format!("crash image at journal prefix {} of {} (after op #{} completed): {}", k, n, f.durable as i64 - 1, e)
                            };
                            *g = Some((k, ctxs));
                        }
                    }
                }
                std::fs::remove_dir_all(&dirbase).ok();
            });
        }
    });
    let g = found.lock().unwrap();
    g.clone()
}

fn self_test(rec: &Recorded) -> Result<(), String> {
    // the journal must contain the 256-byte header write of log_1 and an index write
    let has_hdr = rec.muts.iter().any(|m| m.op == 2 && m.path == "log_1" && m.off == 0 && m.len == 256);
    let has_idx = rec.muts.iter().any(|m| m.op == 2 && m.path == "index");
    if !has_hdr || !has_idx {
        return Err(format!(
            "journal shim self-test failed (log_1 header write seen: {}, index write seen: {}, {} mutations)",
            has_hdr,
            has_idx,
            rec.muts.len()
        ));
    }
    Ok(())
}

pub fn main(ctx: &Ctx) -> i32 {
    let work = work_dir(ctx);
    let stats = Arc::new(Stats::default());
    let fin = || Finish {
        level: "fault_enumeration",
        rule: "store-mode histories (5..28 generated ops over append / batch / delete-from + re-append / hard state / membership / address / last-applied / compaction pointer / snapshot install / reopen) are recorded under an LD_PRELOAD journal of file mutations; for EVERY prefix of that journal (all M+1, prefixes ending on a marker are identical to their predecessor and skipped) the directory image is materialised and reopened with the real recovery code. evaluations = crash images recovered and judged; non-trivial = the prefix ends strictly inside one operation (some but not all of its file mutations applied); distinct = (history, prefix)".into(),
        assumptions: vec![
            "crash model of the property: process death, OS survives, each write call atomic, program order; no torn or reordered writes, no fsync semantics".into(),
            "ops are issued one at a time, each followed by the write barrier, so at most one operation is in flight at any prefix".into(),
            "store mode mirrors the catalogue messages of compaction (NewSnapshot/Flush/CompleteSnapshot/BuildSnapshotPointerLog); the node tier (c04n.rs) runs generated histories with real compactions in a full node under the same journal and requires, for every prefix, that a restarted node serves the state after j steps for some durable <= j <= submitted; the follower tier (c04f.rs) does the same for a full node that is fed as a follower: a generated prefix of a leader's log (possibly reaching beyond the snapshot), the leader's snapshot through create_snapshot / finalize_snapshot_installation, the remaining entries in generated batches".into(),
        ],
        exhaustive: Some(true),
    };
    if let Some(p) = &ctx.replay {
        if let Ok(frp) = read_replay::<crate::c04f::FollowerCrashReplay>(p) {
            let r = crate::c04f::replay(&frp, &work);
            std::fs::remove_dir_all(&work).ok();
            return match r {
                Ok(None) => {
                    println!("OK property={} replay passed", ctx.id);
                    0
                }
                Ok(Some((_, m))) => {
                    println!("violation detail: {}", m);
                    println!("VIOLATION property={} replay={}", ctx.id, p.display());
                    1
                }
                Err(e) => {
                    eprintln!("replay inconclusive: {}", e);
                    2
                }
            };
        }
        if let Ok(nrp) = read_replay::<crate::c04n::NodeCrashReplay>(p) {
            let r = crate::c04n::replay(ctx, &nrp, &work);
            std::fs::remove_dir_all(&work).ok();
            return match r {
                Ok(None) => {
                    println!("OK property={} replay passed", ctx.id);
                    0
                }
                Ok(Some((_, m))) => {
                    println!("violation detail: {}", m);
                    println!("VIOLATION property={} replay={}", ctx.id, p.display());
                    1
                }
                Err(e) => {
                    eprintln!("replay inconclusive: {}", e);
                    2
                }
            };
        }
        let rp: CrashReplay = match read_replay(p) {
            Ok(c) => c,
            Err(e) => {
                eprintln!("cannot read replay: {}", e);
                return 2;
            }
        };
        let rec = match record(&rp.case, &work, "replay") {
            Ok(r) => r,
            Err(e) => {
                eprintln!("recorder failed: {}", e);
                return 2;
            }
        };
        if let Some(e) = rec.errors.first() {
            println!("violation detail: {}", e);
            println!("VIOLATION property={} replay={}", ctx.id, p.display());
            return 1;
        }
        if std::env::var("RNV_C04_DUMP_JOURNAL").is_ok() {
            for (i, m) in rec.muts.iter().enumerate() {
                let txt = if m.path == ".marker" { String::from_utf8_lossy(&m.data).trim().to_string() } else { String::new() };
                eprintln!("#{} op{} {} off={} len={} {}", i + 1, m.op, m.path, m.off, m.len, txt);
            }
        }
        // the journal of a re-recorded history has the same shape; enumerate all prefixes
        let r = enumerate(&rec, &work, "replay", &stats, None);
        std::fs::remove_dir_all(&work).ok();
        return match r {
            Some((_, m)) => {
                println!("violation detail: {}", m);
                println!("VIOLATION property={} replay={}", ctx.id, p.display());
                1
            }
            None => {
                println!("OK property={} replay passed", ctx.id);
                0
            }
        };
    }
    // RNV_C04_TIER=follower|node restricts a run to one of the full-node tiers (development / sensitivity runs only)
    let only_tier = std::env::var("RNV_C04_TIER").unwrap_or_default();
    let n_hist = if only_tier.is_empty() { ctx.tier.pick(120usize, 2000usize) } else { 0 };
    let strat = case_strategy();
    let mut violation: Option<(CrashReplay, String)> = None;
    let mut cases: Vec<Case> = vec![];
    for p in saved_replays(&ctx.id) {
        if let Ok(rp) = read_replay::<CrashReplay>(&p) {
            cases.push(rp.case);
            stats.label("saved_replay_rerun");
        }
    }
    for i in 0..n_hist {
        cases.push(generate_one(&strat, ctx.seed.wrapping_mul(7919).wrapping_add(i as u64)));
    }
    // small-files class (verification hook in the recorder child): crash points across real file switches
    let n_small = if only_tier.is_empty() { ctx.tier.pick(14usize, 300usize) } else { 0 };
    let strat_small = case_strategy_small();
    for i in 0..n_small {
        cases.push(generate_one(&strat_small, ctx.seed.wrapping_mul(104_729).wrapping_add(50_000 + i as u64)));
    }
    let mut first = true;
    // record all histories first, 16 recorder children at a time
    let recs: Vec<Result<Recorded, String>> = {
        let slots: Vec<Mutex<Option<Result<Recorded, String>>>> = (0..cases.len()).map(|_| Mutex::new(None)).collect();
        let nexti = AtomicU64::new(0);
        std::thread::scope(|s| {
            for _ in 0..cores() {
                s.spawn(|| loop {
                    let i = nexti.fetch_add(1, Ordering::SeqCst) as usize;
                    if i >= cases.len() {
                        break;
                    }
                    let r = record(&cases[i], &work, &format!("h{}", i));
                    *slots[i].lock().unwrap() = Some(r);
                });
            }
        });
        slots.into_iter().map(|m| m.into_inner().unwrap().unwrap_or_else(|| Err("not recorded".into()))).collect()
    };
    for (ci, (case, rec)) in cases.iter().zip(recs.into_iter()).enumerate() {
        let tag = format!("h{}", ci);
        let rec = match rec {
            Ok(r) => r,
            Err(e) => {
                eprintln!("history {} could not be recorded: {}", ci, e);
                stats.discarded.fetch_add(1, Ordering::Relaxed);
                continue;
            }
        };
        if first {
            if rec.muts.iter().any(|m| m.path.starts_with("log_")) {
                if let Err(e) = self_test(&rec) {
                    eprintln!("{}", e);
                    std::fs::remove_dir_all(&work).ok();
                    return 2;
                }
                first = false;
            }
        }
        if let Some(e) = rec.errors.first() {
            violation = Some((CrashReplay { case: case.clone(), prefix: 0 }, e.clone()));
            break;
        }
        stats.label("histories");
        if case.small_files {
            stats.label("small_files_histories");
            let logs: BTreeSet<&str> = rec.muts.iter().filter(|m| m.path.starts_with("log_")).map(|m| m.path.as_str()).collect();
            if logs.len() >= 2 {
                stats.label("small_files_history_touches_two_or_more_log_files");
            }
            if logs.len() >= 3 {
                stats.label("small_files_history_touches_three_or_more_log_files");
            }
        }
        stats.label_n("journal_mutations", rec.muts.iter().filter(|m| m.path != ".marker").count() as u64);
        stats.add_sample(
            serde_json::json!({"history": rec.plan.iter().map(|p| format!("{:?}", p).chars().take(90).collect::<String>()).collect::<Vec<_>>(), "file_mutations": rec.muts.iter().filter(|m| m.path != ".marker").count()}),
            3,
        );
        if let Some((k, msg)) = enumerate(&rec, &work, &tag, &stats, None) {
            violation = Some((CrashReplay { case: case.clone(), prefix: k }, msg));
            break;
        }
    }
    if violation.is_none() {
        // node tier: crash points inside a full node (real write path, real compaction), see c04n.rs
        match crate::c04n::run_tier(ctx, &stats, &work, if only_tier == "follower" { 0 } else { ctx.tier.pick(3usize, 24usize) }) {
            Ok(None) => {}
            Ok(Some((rp, msg))) => {
                std::fs::remove_dir_all(&work).ok();
                return finish(ctx, &stats, fin(), Some(Failure { case: rp, message: msg }));
            }
            Err(e) => {
                eprintln!("C04 infrastructure problem (node tier): {}", e);
                std::fs::remove_dir_all(&work).ok();
                return 2;
            }
        }
        // follower tier: crash points inside a full node that receives log replication and a snapshot install, see c04f.rs
        match crate::c04f::run_tier(ctx, &stats, &work, if only_tier == "node" { 0 } else { ctx.tier.pick(2usize, 20usize) }) {
            Ok(None) => {}
            Ok(Some((rp, msg))) => {
                std::fs::remove_dir_all(&work).ok();
                return finish(ctx, &stats, fin(), Some(Failure { case: rp, message: msg }));
            }
            Err(e) => {
                eprintln!("C04 infrastructure problem (follower tier): {}", e);
                std::fs::remove_dir_all(&work).ok();
                return 2;
            }
        }
    }
    std::fs::remove_dir_all(&work).ok();
    match violation {
        Some((rp, msg)) => finish(ctx, &stats, fin(), Some(Failure { case: rp, message: msg })),
        None => finish::<CrashReplay>(ctx, &stats, fin(), None),
    }
}
