//! C01 - served state survives restart: snapshot plus log replay reproduces it exactly.
//! Histories of ClientRequests on a real single-node Raft with compactions placed by the harness
//! (awaited, concurrent with later writes, interrupted) or by the Raft core (small snapshot
//! threshold), and restarts (real process boundary). dump(before stop) == dump(after restart).

use crate::c07::diff_json;
use crate::engine::*;
use crate::node::*;
use crate::reqgen::*;
use proptest::prelude::*;
use serde::{Deserialize, Serialize};
use serde_json::Value;
use std::collections::BTreeSet;
use std::path::Path;
use std::sync::atomic::{AtomicU64, Ordering};
use std::sync::Arc;

#[derive(Debug, Clone, Serialize, Deserialize, PartialEq)]
pub enum Step {
    Req(ReqSpec),
    /// raft_store.do_log_compaction(), awaited
    Compact,
    /// same, spawned: the following writes race with it (how async-raft runs it)
    CompactConcurrent,
    /// the child exits while the new snapshot file is being written (partial snapshot_<id> left behind)
    CrashInCompaction(u32),
    Restart,
}

#[derive(Debug, Clone, Serialize, Deserialize)]
pub struct Case {
    pub steps: Vec<Step>,
    /// 0 = compactions only where the history places them; otherwise the Raft core compacts by itself
    pub threshold: u64,
    /// every node process of this case runs with the verification hook of /repo switched on
    /// (RNV_LOG_INDEX_AREA_LIMIT=44): a log file is full after 128 records, so long histories restart from several log
    /// files and compactions remove closed files
    #[serde(default)]
    pub small_files: bool,
}

/// long histories (140..280 steps) on small log files
pub fn case_strategy_small(concurrent: bool) -> BoxedStrategy<Case> {
    (
        prop::collection::vec(step_strategy(concurrent), 140..280),
        if concurrent { prop_oneof![2 => Just(0u64), 1 => Just(50u64), 1 => Just(150u64)].boxed() } else { Just(0u64).boxed() },
    )
        .prop_map(|(steps, threshold)| Case { steps, threshold, small_files: true })
        .boxed()
}

fn step_strategy(concurrent: bool) -> BoxedStrategy<Step> {
    let mut v: Vec<(u32, BoxedStrategy<Step>)> = vec![
        (30, spec_strategy().prop_map(Step::Req).boxed()),
        (3, Just(Step::Compact).boxed()),
        (2, Just(Step::Restart).boxed()),
        (1, (200u32..60_000).prop_map(Step::CrashInCompaction).boxed()),
    ];
    if concurrent {
        v.push((2, Just(Step::CompactConcurrent).boxed()));
    }
    proptest::strategy::Union::new_weighted(v).boxed()
}

pub fn case_strategy(max_len: usize, concurrent: bool) -> BoxedStrategy<Case> {
    (
        prop::collection::vec(step_strategy(concurrent), 8..max_len),
        if concurrent {
            prop_oneof![3 => Just(0u64), 1 => Just(5u64), 1 => Just(20u64), 1 => Just(50u64)].boxed()
        } else {
            Just(0u64).boxed()
        },
    )
        .prop_map(|(steps, threshold)| Case { steps, threshold, small_files: false })
        .boxed()
}

static CASE_NO: AtomicU64 = AtomicU64::new(0);

fn discard(msg: String) -> CaseReport {
    CaseReport {
        labels: vec!["discarded".into()],
        nontrivial: false,
        verdict: Verdict::Discard(msg),
    }
}

fn get_dump(run: &PhaseRun) -> Option<Value> {
    run.results.iter().find_map(|r| if let NodeRes::Dump(v) = r { Some(v.clone()) } else { None })
}

/// with a concurrent (fuzzy) compaction a snapshot may already contain effects of entries that are
/// replayed again: counters may then be ahead after the restart (ids are skipped, never reused - C19)
fn relax_sequences(before: &mut Value, after: &mut Value) -> Result<(), String> {
    let b = before.get("sequences").cloned().unwrap_or(Value::Null);
    let a = after.get("sequences").cloned().unwrap_or(Value::Null);
    if let (Value::Object(b), Value::Object(a)) = (&b, &a) {
        for (k, bv) in b {
            let av = a.get(k).cloned().unwrap_or(Value::Null);
            match (bv.as_u64(), av.as_u64()) {
                (Some(x), Some(y)) if y >= x => {}
                _ => return Err(format!("/sequences/{}: {} before restart vs {} after (went backwards)", k, bv, av)),
            }
        }
    }
    before["sequences"] = Value::Null;
    after["sequences"] = Value::Null;
    // the sequence table inside the snapshot records moves with the counters
    if let Some(o) = before.get_mut("snapshot_records").and_then(|v| v.as_object_mut()) {
        o.insert(rnacos::common::constant::SEQUENCE_TREE_NAME.as_str().to_string(), Value::Null);
    }
    if let Some(o) = after.get_mut("snapshot_records").and_then(|v| v.as_object_mut()) {
        o.insert(rnacos::common::constant::SEQUENCE_TREE_NAME.as_str().to_string(), Value::Null);
    }
    Ok(())
}

pub const KNOWN_FUZZY: &str = "C01/snapshot-not-atomic-with-concurrent-apply";

fn has_concurrency(case: &Case) -> bool {
    case.threshold != 0 || case.steps.iter().any(|s| matches!(s, Step::CompactConcurrent))
}

/// the same history with every compaction awaited and none placed by the Raft core
fn deterministic_variant(case: &Case) -> Case {
    Case {
        steps: case.steps.iter().map(|s| if let Step::CompactConcurrent = s { Step::Compact } else { s.clone() }).collect(),
        threshold: 0,
        small_files: case.small_files,
    }
}

fn run_once(case: &Case, work: &Path) -> CaseReport {
    let n = CASE_NO.fetch_add(1, Ordering::SeqCst);
    let tag = format!("k{}", n);
    let dir = unique_dir(work, &tag);
    let r = run_case_inner(case, work, &tag, &dir);
    std::fs::remove_dir_all(&dir).ok();
    r
}

pub fn run_case(case: &Case, work: &Path) -> CaseReport {
    let mut r = run_once(case, work);
    if let Verdict::Violation(msg) = &r.verdict {
        // Known finding (known_findings.json, open): a compaction that runs while writes are being applied is
        // not atomic - the snapshot's last index and its content can disagree, so a restart loses or
        // re-applies entries. It is recognised by the history itself: the failure needs the concurrency, i.e.
        // the same history with every compaction awaited passes. Anything that also fails without
        // concurrency is reported as a violation.
        if has_concurrency(case) && is_open("C01", KNOWN_FUZZY) {
            let det = run_once(&deterministic_variant(case), work);
            match det.verdict {
                Verdict::Pass => {
                    r.labels.push("known_fuzzy_snapshot_hit".into());
                    r.verdict = Verdict::Known(KNOWN_FUZZY.into());
                }
                Verdict::Violation(m2) => {
                    r.verdict = Verdict::Violation(format!("{} [also without concurrent compaction: {}]", msg, m2));
                }
                _ => {}
            }
        }
    }
    r
}

fn run_case_inner(case: &Case, work: &Path, tag: &str, dir: &Path) -> CaseReport {
    let specs: Vec<ReqSpec> = case.steps.iter().filter_map(|s| if let Step::Req(r) = s { Some(r.clone()) } else { None }).collect();
    let reqs = to_requests(&specs);
    let kinds: BTreeSet<&'static str> = specs.iter().map(kind_name).collect();
    let mut labels: BTreeSet<String> = BTreeSet::new();
    let envs: Vec<(String, String)> = if case.small_files { vec![("RNV_LOG_INDEX_AREA_LIMIT".to_string(), "44".to_string())] } else { vec![] };
    if case.small_files {
        labels.insert("small_log_files".into());
        if specs.len() > 128 {
            labels.insert("small_log_files_history_crosses_a_file_switch".into());
        }
    }
    let threshold = if case.threshold == 0 { 1_000_000 } else { case.threshold };
    if case.threshold != 0 {
        labels.insert(format!("raft_core_compaction_threshold_{}", case.threshold));
    }
    let mut fuzzy = case.threshold != 0;
    let mut ri = 0usize;
    let mut seg = 0usize;
    let mut i = 0usize;
    let mut compacted = false;
    let mut write_after_compaction = false;
    let mut nontrivial = false;
    let mut first_phase = true;
    let mut crashed_in_compaction = false;
    let mut removed_after_compaction = false;
    let mut last_after: Option<Value> = None;
    let has_events = case.steps.iter().any(|s| !matches!(s, Step::Req(_)));
    loop {
        // ---- working phase: steps up to the next Restart / CrashInCompaction / end
        let mut ops = vec![NodeOp::WaitLeader];
        let mut end_kind = "end";
        while i < case.steps.len() {
            match &case.steps[i] {
                Step::Req(spec) => {
                    ops.push(NodeOp::Write(reqs[ri].clone()));
                    ri += 1;
                    if compacted {
                        write_after_compaction = true;
                        if matches!(spec, ReqSpec::ConfigRemove { .. } | ReqSpec::UserRemove { .. } | ReqSpec::NsDelete { .. } | ReqSpec::InstRemove { .. } | ReqSpec::ServerRemove { .. } | ReqSpec::ToolRemove { .. }) {
                            removed_after_compaction = true;
                        }
                    }
                }
                // with a small snapshot threshold the Raft core compacts by itself; it never overlaps two
                // compactions, so the history places none of its own then
                Step::Compact | Step::CompactConcurrent | Step::CrashInCompaction(_) if case.threshold != 0 => {}
                Step::Compact => {
                    ops.push(NodeOp::Compact);
                    compacted = true;
                    labels.insert("compaction_awaited".into());
                }
                Step::CompactConcurrent => {
                    ops.push(NodeOp::CompactSpawn);
                    compacted = true;
                    fuzzy = true;
                    labels.insert("compaction_concurrent".into());
                }
                Step::CrashInCompaction(bytes) => {
                    ops.push(NodeOp::Barrier);
                    ops.push(NodeOp::Dump);
                    ops.push(NodeOp::CrashInCompaction { bytes: *bytes as u64 });
                    end_kind = "crash";
                    i += 1;
                    break;
                }
                Step::Restart => {
                    end_kind = "restart";
                    i += 1;
                    break;
                }
            }
            i += 1;
        }
        if end_kind != "crash" {
            ops.push(NodeOp::Barrier);
            ops.push(NodeOp::Dump);
            ops.push(NodeOp::Exit { raw: false });
        }
        let ptag = format!("{}-w{}", tag, seg);
        let pw = phase(dir, work, &ptag, 1, true, threshold, ops);
        let rw = match run_phase_child_env(work, &ptag, &pw, 180, &envs) {
            Ok(r) => r,
            Err(e) => {
                return if first_phase { discard(e) } else { CaseReport::violation(labels.into_iter().collect(), true, format!("segment {}: {}", seg, e)) }
            }
        };
        match rw.results.first() {
            Some(NodeRes::Ok) => {}
            other => {
                let msg = format!("segment {}: node is not an idle leader after start: {:?}; stderr: {}", seg, other, rw.stderr_tail);
                return if first_phase { discard(msg) } else { CaseReport::violation(labels.into_iter().collect(), true, msg) };
            }
        }
        first_phase = false;
        for (k, r) in rw.results.iter().enumerate() {
            if let NodeRes::Err(e) = r {
                if e.contains("compaction finished before the crash threshold") {
                    labels.insert("crash_threshold_not_reached".into());
                    continue;
                }
                return CaseReport::violation(labels.into_iter().collect(), true, format!("segment {}: op #{} failed: {}", seg, k, e));
            }
        }
        let mut before = match get_dump(&rw) {
            Some(d) => d,
            None => {
                return CaseReport::violation(
                    labels.into_iter().collect(),
                    true,
                    format!("segment {}: no dump before stop (exit {:?}); stderr: {}", seg, rw.exit_code, rw.stderr_tail),
                )
            }
        };
        if end_kind == "crash" && !labels.contains("crash_threshold_not_reached") {
            crashed_in_compaction = true;
            labels.insert("interrupted_compaction".into());
        }
        // ---- restart + dump
        let rtag = format!("{}-r{}", tag, seg);
        let pr = phase(dir, work, &rtag, 1, true, threshold, vec![NodeOp::Dump]);
        let rr = match run_phase_child_env(work, &rtag, &pr, 180, &envs) {
            Ok(r) => r,
            Err(e) => return CaseReport::violation(labels.into_iter().collect(), true, format!("restart after segment {}: {}", seg, e)),
        };
        let mut after = match get_dump(&rr) {
            Some(d) => d,
            None => {
                return CaseReport::violation(
                    labels.into_iter().collect(),
                    true,
                    format!("restart after segment {}: node did not come up / no dump (exit {:?}); stderr: {}", seg, rr.exit_code, rr.stderr_tail),
                )
            }
        };
        labels.insert("restart".into());
        if fuzzy {
            if let Err(e) = relax_sequences(&mut before, &mut after) {
                return CaseReport::violation(labels.into_iter().collect(), true, format!("restart after segment {}: {}", seg, e));
            }
        }
        if let Some(d) = diff_json(&before, &after, "") {
            return CaseReport::violation(
                labels.into_iter().collect(),
                true,
                format!("state served before the stop differs from the state served after restart #{} at {}", seg + 1, d),
            );
        }
        last_after = Some(after.clone());
        if (compacted && write_after_compaction) || removed_after_compaction || crashed_in_compaction {
            if kinds.len() >= 5 {
                nontrivial = true;
            }
        }
        if removed_after_compaction {
            labels.insert("delete_after_compaction_then_restart".into());
        }
        seg += 1;
        if i >= case.steps.len() {
            break;
        }
    }
    // ---- metamorphic reference: restarts and compactions are transparent. The same request sequence on a
    // fresh node without any compaction or restart must end in the same served state as the history with them.
    if has_events {
        let rdir = unique_dir(work, &format!("{}-ref", tag));
        let mut ops = vec![NodeOp::WaitLeader];
        for r in &reqs {
            ops.push(NodeOp::Write(r.clone()));
        }
        ops.push(NodeOp::Barrier);
        ops.push(NodeOp::Dump);
        ops.push(NodeOp::Exit { raw: false });
        let ptag = format!("{}-ref", tag);
        let pref = phase(&rdir, work, &ptag, 1, true, 1_000_000, ops);
        let rref = run_phase_child_env(work, &ptag, &pref, 180, &envs);
        std::fs::remove_dir_all(&rdir).ok();
        if let (Ok(rref), Some(mut last)) = (rref, last_after.clone()) {
            if let (Some(NodeRes::Ok), Some(mut want)) = (rref.results.first().cloned(), get_dump(&rref)) {
                if fuzzy {
                    if let Err(e) = relax_sequences(&mut want, &mut last) {
                        return CaseReport::violation(labels.into_iter().collect(), true, format!("reference run (no restart, no compaction) vs history with them: {}", e));
                    }
                }
                labels.insert("reference_run_compared".into());
                if let Some(d) = diff_json(&want, &last, "") {
                    return CaseReport::violation(
                        labels.into_iter().collect(),
                        true,
                        format!("the same requests without any restart/compaction end in a different served state than the history with them: {} (reference vs history)", d),
                    );
                }
            }
        }
    }
    for k in &kinds {
        labels.insert(format!("kind_{}", k));
    }
    CaseReport::pass(labels.into_iter().collect(), nontrivial)
}

fn strat_det() -> BoxedStrategy<Case> {
    case_strategy(60, false)
}
fn strat_det_long() -> BoxedStrategy<Case> {
    case_strategy(250, false)
}
fn strat_conc() -> BoxedStrategy<Case> {
    case_strategy(60, true)
}

pub fn main(ctx: &Ctx) -> i32 {
    let work = work_dir(ctx);
    let fin = || Finish {
        level: "exploration",
        rule: "histories (8..60 steps, 250 in thorough) of ClientRequests of all kinds over small overlapping key universes on a real single-node Raft node in a child process, with awaited compactions, compactions concurrent with the following writes, compactions by the Raft core itself (snapshot threshold 5/20/50), interrupted compactions (child exits when the new snapshot file reaches N bytes) and restarts (new process on the same directory); the state dump taken before each stop (every config GET + history page, tenant listings, user-created namespaces, user rows, MCP servers/tools, persistent instances, membership/addresses, sequence counters probed last) must equal the dump taken after the restart. With a concurrent (fuzzy) compaction sequence counters may only move forward. non-trivial = >=5 request kinds and (a write after a compaction followed by a restart, or a delete after a compaction, or an interrupted compaction); distinct = hash of the case".into(),
        assumptions: vec![
            "stop points are after the write barrier (all acknowledged writes have reached the OS)".into(),
            "cache entries and weak (derived) namespaces are not compared".into(),
            "Members only [1]; NodeAddr only for ids >= 2 (see DESIGN C01)".into(),
        ],
        exhaustive: None,
    };
    if let Some(p) = &ctx.replay {
        let r = match read_replay::<Case>(p) {
            Ok(c) => finish_replay(ctx, run_case(&c, &work), p),
            Err(e) => {
                eprintln!("cannot read replay: {}", e);
                2
            }
        };
        std::fs::remove_dir_all(&work).ok();
        return r;
    }
    let stats = Arc::new(Stats::default());
    for p in saved_replays(&ctx.id) {
        if let Ok(case) = read_replay::<Case>(&p) {
            let rep = run_case(&case, &work);
            stats.label("saved_replay_rerun");
            stats.record(&case, &rep);
            if let Verdict::Violation(m) = &rep.verdict {
                write_evidence(ctx, &stats, &fin(), 1);
                println!("violation detail: {}", m);
                println!("VIOLATION property={} replay={}", ctx.id, p.display());
                std::fs::remove_dir_all(&work).ok();
                return 1;
            }
        }
    }
    let n_det = ctx.tier.pick(160u32, 3000u32);
    let n_conc = ctx.tier.pick(64u32, 1500u32);
    let w2 = work.clone();
    let fail = match ctx.tier {
        Tier::Quick => run_cases(ctx, &stats, strat_det as fn() -> _, n_det, cores(), 100, move |c| run_case(c, &w2)),
        Tier::Thorough => run_cases(ctx, &stats, strat_det_long as fn() -> _, n_det, cores(), 100, move |c| run_case(c, &w2)),
    };
    if fail.is_some() {
        std::fs::remove_dir_all(&work).ok();
        return finish(ctx, &stats, fin(), fail);
    }
    let w3 = work.clone();
    let fail = run_cases(ctx, &stats, strat_conc as fn() -> _, n_conc, cores(), 100, move |c| run_case(c, &w3));
    if fail.is_some() {
        std::fs::remove_dir_all(&work).ok();
        return finish(ctx, &stats, fin(), fail);
    }
    // long histories on small log files (verification hook): restarts from several log files, compaction of closed files
    let n_small = ctx.tier.pick(32u32, 600u32);
    let w4 = work.clone();
    let fail = run_cases(ctx, &stats, (|| case_strategy_small(false)) as fn() -> _, n_small, cores(), 60, move |c| run_case(c, &w4));
    if fail.is_some() {
        std::fs::remove_dir_all(&work).ok();
        return finish(ctx, &stats, fin(), fail);
    }
    let w5 = work.clone();
    let fail = run_cases(ctx, &stats, (|| case_strategy_small(true)) as fn() -> _, n_small / 2, cores(), 60, move |c| run_case(c, &w5));
    std::fs::remove_dir_all(&work).ok();
    finish(ctx, &stats, fin(), fail)
}
