//! C15 - registry converges: after quiescence every live node returns the same instances.
//! Real 3-node clusters. Generated schedules assign HTTP register / deregister, gRPC register through
//! held bi-stream connections (closing one = client disconnect) and node kill / restart to nodes.
//! The harness keeps HTTP heartbeats going for the instances it considers registered. Oracle: within
//! the deadline every live node returns, for every service, exactly the model's surviving
//! registrations (address, healthy, enabled, weight), identically on all nodes.

use crate::cluster::*;
use crate::engine::*;
use futures_util::StreamExt;
use proptest::prelude::*;
use rnacos::grpc::api_model as am;
use rnacos::grpc::nacos_proto::bi_request_stream_client::BiRequestStreamClient;
use rnacos::grpc::nacos_proto::request_client::RequestClient;
use rnacos::grpc::PayloadUtils;
use serde::{Deserialize, Serialize};
use serde_json::Value;
use std::collections::{BTreeMap, BTreeSet, HashMap};
use std::path::Path;
use std::sync::atomic::{AtomicBool, AtomicU64, Ordering};
use std::sync::{Arc, Mutex};
use std::time::{Duration, Instant};

#[derive(Debug, Clone, Serialize, Deserialize, PartialEq)]
pub enum Op {
    HttpRegister { svc: u8, addr: u8, node: u8, weight: u8 },
    HttpDeregister { svc: u8, addr: u8, node: u8 },
    /// the HTTP client of this address dies: no deregistration, its heartbeats just stop (the instance has to be timed
    /// out by whichever node is responsible for it by then)
    HttpAbandon { svc: u8, addr: u8 },
    GrpcConnect { conn: u8, node: u8 },
    GrpcRegister { conn: u8, svc: u8, addr: u8 },
    GrpcDeregister { conn: u8, svc: u8, addr: u8 },
    GrpcClose { conn: u8 },
    Kill { node: u8 },
    Restart,
    /// kill -9 a node and start it again at once (well inside the 15 s after which its peers would declare it dead);
    /// no gRPC client connects to it afterwards: its former connections must still disappear everywhere
    KillRestartQuick { node: u8 },
    /// two requests for one address back to back through one node (inside one 500 ms sync batch of the owner):
    /// update then deregister (end_registered = false) or deregister then register again (true)
    Flap { svc: u8, addr: u8, node: u8, weight: u8, end_registered: bool },
    Pause { ms: u16 },
}

#[derive(Debug, Clone, Serialize, Deserialize)]
pub struct Case {
    pub ops: Vec<Op>,
}

fn op_strategy(with_kill: bool) -> BoxedStrategy<Op> {
    let mut v: Vec<(u32, BoxedStrategy<Op>)> = vec![
        (8, (0u8..3, 0u8..6, 0u8..3, 2u8..5).prop_map(|(svc, addr, node, weight)| Op::HttpRegister { svc, addr, node, weight }).boxed()),
        (3, (0u8..3, 0u8..6, 0u8..3).prop_map(|(svc, addr, node)| Op::HttpDeregister { svc, addr, node }).boxed()),
        (2, (0u8..3, 0u8..6).prop_map(|(svc, addr)| Op::HttpAbandon { svc, addr }).boxed()),
        (3, (0u8..3, 0u8..3).prop_map(|(conn, node)| Op::GrpcConnect { conn, node }).boxed()),
        (6, (0u8..3, 0u8..3, 6u8..12).prop_map(|(conn, svc, addr)| Op::GrpcRegister { conn, svc, addr }).boxed()),
        (1, (0u8..3, 0u8..3, 6u8..12).prop_map(|(conn, svc, addr)| Op::GrpcDeregister { conn, svc, addr }).boxed()),
        (2, (0u8..3).prop_map(|conn| Op::GrpcClose { conn }).boxed()),
        (2, (100u16..1500).prop_map(|ms| Op::Pause { ms }).boxed()),
        (3, (0u8..3, 0u8..6, 0u8..3, 2u8..5, any::<bool>()).prop_map(|(svc, addr, node, weight, end_registered)| Op::Flap { svc, addr, node, weight, end_registered }).boxed()),
    ];
    if with_kill {
        v.push((2, (0u8..3).prop_map(|node| Op::Kill { node }).boxed()));
        v.push((2, Just(Op::Restart).boxed()));
    }
    proptest::strategy::Union::new_weighted(v).boxed()
}

/// a node that holds gRPC registrations is killed and restarted at once, in the middle of a generated schedule
pub fn case_strategy_quick_restart() -> BoxedStrategy<Case> {
    (0u8..3, 0u8..3, prop::collection::vec((0u8..3, 6u8..12), 1..4), prop::collection::vec(op_strategy(false), 3..12), prop::collection::vec(op_strategy(false), 3..12))
        .prop_map(|(conn, node, regs, mut a, b)| {
            a.push(Op::GrpcConnect { conn, node });
            for (svc, addr) in regs {
                a.push(Op::GrpcRegister { conn, svc, addr });
            }
            a.push(Op::Pause { ms: 1200 });
            a.push(Op::KillRestartQuick { node });
            a.extend(b);
            Case { ops: a }
        })
        .boxed()
}

/// a gRPC client registers through node `b`; another node `c` is killed and restarted at once afterwards, so it learns
/// those registrations only from the snapshot it asks for after its start (not from the live synchronisation); the
/// client registers nothing further; then node `b` is killed: every survivor - also the one that was taught by
/// snapshot - has to drop the dead node's connection instances
pub fn case_strategy_snapshot_learner_then_owner_killed() -> BoxedStrategy<Case> {
    (0u8..3, 0u8..3, 1u8..3, prop::collection::vec((0u8..3, 6u8..12), 1..4), 3_000u16..9_000, prop::collection::vec(op_strategy(false), 0..6), prop::collection::vec(op_strategy(false), 0..6))
        .prop_map(|(conn, b, dc, regs, wait, mut a, tail)| {
            let c_node = (b + dc) % 3;
            a.push(Op::GrpcConnect { conn, node: b });
            for (svc, addr) in regs {
                a.push(Op::GrpcRegister { conn, svc, addr });
            }
            a.push(Op::Pause { ms: 1200 });
            a.push(Op::KillRestartQuick { node: c_node });
            a.push(Op::Pause { ms: wait });
            a.push(Op::Kill { node: b });
            // (only operations that do not talk to the connection of the killed node change anything afterwards)
            a.extend(tail);
            Case { ops: a }
        })
        .boxed()
}

/// HTTP clients die (heartbeats stop without a deregistration); while their instances are unhealthy but not yet removed
/// the node `node` is killed: whatever it was responsible for has to be timed out by the survivors
pub fn case_strategy_abandon_kill() -> BoxedStrategy<Case> {
    (prop::collection::vec((0u8..6, 0u8..3, 2u8..5), 3), 17_000u16..27_000, 0u8..3, prop::collection::vec(op_strategy(false), 0..6), prop::collection::vec(op_strategy(false), 2..10))
        .prop_map(|(regs, wait, node, mut a, b)| {
            for (s, (addr, nd, weight)) in regs.iter().enumerate() {
                a.push(Op::HttpRegister { svc: s as u8, addr: *addr, node: *nd, weight: *weight });
            }
            a.push(Op::Pause { ms: 1500 });
            for (s, (addr, _, _)) in regs.iter().enumerate() {
                a.push(Op::HttpAbandon { svc: s as u8, addr: *addr });
            }
            a.push(Op::Pause { ms: wait });
            a.push(Op::Kill { node });
            a.extend(b);
            Case { ops: a }
        })
        .boxed()
}

pub fn case_strategy(with_kill: bool) -> BoxedStrategy<Case> {
    prop::collection::vec(op_strategy(with_kill), 10..36).prop_map(|ops| Case { ops }).boxed()
}

const SVCS: [&str; 3] = ["c15-orders", "c15-users", "c15-a"];

fn addr_of(a: u8) -> (String, u32) {
    (format!("10.15.0.{}", 1 + a % 12), 8000 + a as u32)
}

// ------------------------------------------------------------------------------------------
// a held gRPC connection (own thread + runtime); dropping it closes the channel = client disconnect

enum GMsg {
    Instance { svc: String, ip: String, port: u32, register: bool, enabled: bool, weight: f32, reply: std::sync::mpsc::Sender<Result<(), String>> },
    Close,
}

pub struct GrpcConn {
    tx: tokio::sync::mpsc::UnboundedSender<GMsg>,
    handle: Option<std::thread::JoinHandle<()>>,
    pub node: usize,
}

impl GrpcConn {
    pub fn connect(port: u16, node: usize) -> Result<GrpcConn, String> {
        let (tx, mut rx) = tokio::sync::mpsc::unbounded_channel::<GMsg>();
        let (ready_tx, ready_rx) = std::sync::mpsc::channel::<Result<(), String>>();
        let handle = std::thread::spawn(move || {
            let rt = match tokio::runtime::Builder::new_current_thread().enable_all().build() {
                Ok(r) => r,
                Err(e) => {
                    let _ = ready_tx.send(Err(e.to_string()));
                    return;
                }
            };
            rt.block_on(async move {
                let ch = match tonic::transport::Endpoint::new(format!("http://127.0.0.1:{}", port)) {
                    Ok(e) => match e.timeout(Duration::from_secs(8)).connect().await {
                        Ok(c) => c,
                        Err(e) => {
                            let _ = ready_tx.send(Err(format!("grpc connect: {}", e)));
                            return;
                        }
                    },
                    Err(e) => {
                        let _ = ready_tx.send(Err(e.to_string()));
                        return;
                    }
                };
                let mut client = RequestClient::new(ch.clone());
                let setup = am::ConnectionSetupRequest {
                    client_version: Some("Nacos-Java-Client:v2.1.0".into()),
                    tenant: Some("".into()),
                    labels: Some(HashMap::new()),
                    ..Default::default()
                };
                let first = PayloadUtils::build_payload("ConnectionSetupRequest", serde_json::to_string(&setup).unwrap_or_default());
                let out = futures_util::stream::iter(vec![first]).chain(futures_util::stream::pending());
                let mut bi = BiRequestStreamClient::new(ch.clone());
                let _keep = match bi.request_bi_stream(out).await {
                    Ok(r) => r,
                    Err(e) => {
                        let _ = ready_tx.send(Err(format!("bi stream: {}", e)));
                        return;
                    }
                };
                let mut ok = false;
                for _ in 0..150 {
                    let hc = PayloadUtils::build_payload("HealthCheckRequest", "{}".to_string());
                    if let Ok(r) = client.request(hc).await {
                        let raw = r.get_ref().body.as_ref().map(|b| String::from_utf8_lossy(&b.value).to_string()).unwrap_or_default();
                        let v: Value = serde_json::from_str(&raw).unwrap_or(Value::Null);
                        if v["resultCode"].as_i64() == Some(200) {
                            ok = true;
                            break;
                        }
                    }
                    tokio::time::sleep(Duration::from_millis(20)).await;
                }
                if !ok {
                    let _ = ready_tx.send(Err("bi-stream connection was not registered within 3 s".into()));
                    return;
                }
                let _ = ready_tx.send(Ok(()));
                // like the SDK: a HealthCheckRequest every 3 s keeps the connection "active" on the server
                // (a silent connection is evicted after the 15 s detection time-out)
                let mut tick = tokio::time::interval(Duration::from_secs(3));
                loop {
                    let m = tokio::select! {
                        m = rx.recv() => match m { Some(m) => m, None => break },
                        _ = tick.tick() => {
                            let hc = PayloadUtils::build_payload("HealthCheckRequest", "{}".to_string());
                            let _ = client.request(hc).await;
                            continue;
                        }
                    };
                    match m {
                        GMsg::Close => break,
                        GMsg::Instance { svc, ip, port, register, enabled, weight, reply } => {
                            let req = am::InstanceRequest {
                                namespace: Some("".into()),
                                service_name: Some(svc.clone()),
                                group_name: Some("DEFAULT_GROUP".into()),
                                r#type: Some(if register { "registerInstance".into() } else { "deregisterInstance".into() }),
                                instance: Some(am::Instance {
                                    ip: Some(Arc::new(ip)),
                                    port,
                                    weight,
                                    healthy: true,
                                    enabled,
                                    ephemeral: true,
                                    cluster_name: Some("DEFAULT".into()),
                                    service_name: Some(Arc::new(svc)),
                                    metadata: Some(Arc::new(HashMap::new())),
                                    ..Default::default()
                                }),
                                ..Default::default()
                            };
                            let p = PayloadUtils::build_payload("InstanceRequest", serde_json::to_string(&req).unwrap_or_default());
                            let r = match client.request(p).await {
                                Ok(r) => {
                                    let raw = r.get_ref().body.as_ref().map(|b| String::from_utf8_lossy(&b.value).to_string()).unwrap_or_default();
                                    let v: Value = serde_json::from_str(&raw).unwrap_or(Value::Null);
                                    if v["resultCode"].as_i64() == Some(200) {
                                        Ok(())
                                    } else {
                                        Err(format!("InstanceRequest answered {}", raw.chars().take(160).collect::<String>()))
                                    }
                                }
                                Err(e) => Err(format!("grpc status: {}", e)),
                            };
                            let _ = reply.send(r);
                        }
                    }
                }
                // leaving the block drops the channel and the bi stream: the server sees the disconnect
            });
        });
        match ready_rx.recv_timeout(Duration::from_secs(15)) {
            Ok(Ok(())) => Ok(GrpcConn { tx, handle: Some(handle), node }),
            Ok(Err(e)) => Err(e),
            Err(_) => Err("grpc connection setup timed out".into()),
        }
    }

    pub fn instance(&self, svc: &str, ip: &str, port: u32, register: bool) -> Result<(), String> {
        self.instance_with(svc, ip, port, register, true, 1.0)
    }

    pub fn instance_with(&self, svc: &str, ip: &str, port: u32, register: bool, enabled: bool, weight: f32) -> Result<(), String> {
        let (rtx, rrx) = std::sync::mpsc::channel();
        self.tx
            .send(GMsg::Instance {
                svc: svc.to_string(),
                ip: ip.to_string(),
                port,
                register,
                enabled,
                weight,
                reply: rtx,
            })
            .map_err(|_| "connection thread gone".to_string())?;
        rrx.recv_timeout(Duration::from_secs(12)).map_err(|_| "gRPC request timed out".to_string())?
    }

    pub fn close(mut self) {
        let _ = self.tx.send(GMsg::Close);
        if let Some(h) = self.handle.take() {
            let _ = h.join();
        }
    }
}

// ------------------------------------------------------------------------------------------

#[derive(Debug, Clone, PartialEq)]
enum Owner {
    Http,
    Grpc(usize), // connection slot
}

static CASE_NO: AtomicU64 = AtomicU64::new(0);

/// open finding, see the classification at the end of run_case_inner
pub const KNOWN_ABANDONED_STUCK: &str = "C15/abandoned-instance-stays-listed-unhealthy-after-responsibility-moved";

fn discard(m: String) -> CaseReport {
    CaseReport {
        labels: vec!["discarded".into()],
        nontrivial: false,
        verdict: Verdict::Discard(m),
    }
}

fn http_register(c: &Cluster, node: usize, svc: &str, ip: &str, port: u32, weight: u8) -> Result<bool, String> {
    let r = c
        .client
        .post(format!("{}/nacos/v1/ns/instance", c.http(node)))
        .form(&[
            ("serviceName", svc.to_string()),
            ("ip", ip.to_string()),
            ("port", port.to_string()),
            ("ephemeral", "true".to_string()),
            ("weight", format!("{}", weight)),
            ("groupName", "DEFAULT_GROUP".to_string()),
        ])
        .send()
        .map_err(|e| format!("transport: {}", e))?;
    Ok(r.status().is_success())
}

fn http_deregister(c: &Cluster, node: usize, svc: &str, ip: &str, port: u32) -> Result<bool, String> {
    let r = c
        .client
        .delete(format!("{}/nacos/v1/ns/instance", c.http(node)))
        .query(&[("serviceName", svc.to_string()), ("ip", ip.to_string()), ("port", port.to_string()), ("ephemeral", "true".to_string()), ("groupName", "DEFAULT_GROUP".to_string())])
        .send()
        .map_err(|e| format!("transport: {}", e))?;
    Ok(r.status().is_success())
}

fn list(c: &Cluster, node: usize, svc: &str) -> Result<BTreeSet<(String, u32, bool, bool, String)>, String> {
    let r = c
        .client
        .get(format!("{}/nacos/v1/ns/instance/list", c.http(node)))
        .query(&[("serviceName", svc.to_string()), ("healthyOnly", "false".to_string()), ("groupName", "DEFAULT_GROUP".to_string())])
        .send()
        .map_err(|e| format!("list on node {}: {}", node + 1, e))?;
    let v: Value = r.json().map_err(|e| format!("list on node {}: {}", node + 1, e))?;
    let mut out = BTreeSet::new();
    if let Some(hs) = v["hosts"].as_array() {
        for h in hs {
            out.insert((
                h["ip"].as_str().unwrap_or("").to_string(),
                h["port"].as_u64().unwrap_or(0) as u32,
                h["healthy"].as_bool().unwrap_or(false),
                h["enabled"].as_bool().unwrap_or(false),
                format!("{:.1}", h["weight"].as_f64().unwrap_or(0.0)),
            ));
        }
    }
    Ok(out)
}

pub fn run_case(case: &Case, work: &Path, seed: u64) -> CaseReport {
    let n = CASE_NO.fetch_add(1, Ordering::SeqCst);
    let mut c = match Cluster::new_formed(work, &format!("c15-{}", n), 3, seed + n, BTreeMap::new()) {
        Ok(c) => c,
        Err(e) => return discard(e),
    };
    let r = run_case_inner(case, &mut c);
    if std::env::var("RNV_KEEP_WORK").is_ok() && matches!(r.verdict, Verdict::Violation(_)) {
        c.shutdown();
        eprintln!("kept {}", c.work.display());
    } else {
        c.cleanup();
    }
    r
}

fn run_case_inner(case: &Case, c: &mut Cluster) -> CaseReport {
    let mut labels: BTreeSet<String> = BTreeSet::new();
    // model: (svc, addr) -> (owner, weight)
    let mut model: BTreeMap<(usize, u8), (Owner, u8)> = BTreeMap::new();
    let mut conns: Vec<Option<GrpcConn>> = vec![None, None, None];
    let mut down: Option<usize> = None;
    // heartbeat thread: beats for HTTP instances the model considers registered
    let hb_set: Arc<Mutex<BTreeMap<(usize, u8), usize>>> = Arc::new(Mutex::new(BTreeMap::new())); // -> node to beat through
    let hb_stop = Arc::new(AtomicBool::new(false));
    let bases: Vec<String> = (0..3).map(|i| c.http(i)).collect();
    let alive_flags: Arc<Vec<AtomicBool>> = Arc::new((0..3).map(|_| AtomicBool::new(true)).collect());
    let hb = {
        let hb_set = hb_set.clone();
        let hb_stop = hb_stop.clone();
        let bases = bases.clone();
        let alive = alive_flags.clone();
        std::thread::spawn(move || {
            let client = reqwest::blocking::Client::builder().timeout(Duration::from_secs(3)).pool_max_idle_per_host(0).build().unwrap();
            while !hb_stop.load(Ordering::SeqCst) {
                let items: Vec<((usize, u8), usize)> = hb_set.lock().unwrap().iter().map(|(k, v)| (*k, *v)).collect();
                for ((svc, addr), node) in items {
                    // a client whose node is gone talks to another node
                    let nd = (0..3).map(|d| (node + d) % 3).find(|i| alive[*i].load(Ordering::SeqCst)).unwrap_or(node);
                    let (ip, port) = addr_of(addr);
                    let r = client
                        .put(format!("{}/nacos/v1/ns/instance/beat", bases[nd]))
                        .query(&[("serviceName", SVCS[svc].to_string()), ("ip", ip), ("port", port.to_string()), ("ephemeral", "true".to_string()), ("groupName", "DEFAULT_GROUP".to_string())])
                        .send();
                    if std::env::var("RNV_DEBUG").is_ok() {
                        eprintln!("beat svc{} addr{} via node{} -> {:?}", svc, addr, nd + 1, r.map(|x| (x.status().as_u16(), x.text().unwrap_or_default().chars().take(80).collect::<String>())).map_err(|e| e.to_string()));
                    }
                }
                for _ in 0..20 {
                    if hb_stop.load(Ordering::SeqCst) {
                        break;
                    }
                    std::thread::sleep(Duration::from_millis(100));
                }
            }
        })
    };
    // (svc, addr) -> op index of the HttpAbandon; op index of the first kill
    let mut abandoned: BTreeMap<(usize, u8), usize> = BTreeMap::new();
    let mut first_kill: Option<usize> = None;
    let mut two_nodes_same_addr = false;
    let mut writers: BTreeMap<(usize, u8), BTreeSet<usize>> = BTreeMap::new();
    let mut killed_with_grpc = false;
    let mut quiet_nodes: BTreeSet<usize> = BTreeSet::new();
    let mut err: Option<String> = None;
    for (opi, op) in case.ops.iter().enumerate() {
        match op {
            Op::HttpRegister { svc, addr, node, weight } => {
                let nd = *node as usize % 3;
                if down == Some(nd) {
                    continue;
                }
                let s = *svc as usize % 3;
                let (ip, port) = addr_of(*addr);
                match http_register(c, nd, SVCS[s], &ip, port, *weight) {
                    Ok(true) => {
                        // an HTTP overwrite of a connection-owned ephemeral address keeps the owner (C12)
                        let owner = match model.get(&(s, *addr)) {
                            Some((Owner::Grpc(k), _)) => Owner::Grpc(*k),
                            _ => Owner::Http,
                        };
                        if owner == Owner::Http {
                            hb_set.lock().unwrap().insert((s, *addr), nd);
                        }
                        // the handler treats weight 1.0 as "not given": a re-registration with weight 1 keeps the stored weight
                        let w = match model.get(&(s, *addr)) {
                            Some((_, old)) if *weight == 1 => *old,
                            _ => *weight,
                        };
                        model.insert((s, *addr), (owner, w));
                        let w = writers.entry((s, *addr)).or_default();
                        w.insert(nd);
                        if w.len() >= 2 {
                            two_nodes_same_addr = true;
                        }
                    }
                    Ok(false) => {}
                    Err(e) => {
                        err = Some(format!("op #{} {:?}: {}", opi, op, e));
                        break;
                    }
                }
            }
            Op::HttpDeregister { svc, addr, node } => {
                let nd = *node as usize % 3;
                if down == Some(nd) {
                    continue;
                }
                let s = *svc as usize % 3;
                // a deregistration without client id removes the address only when it is not connection-owned
                // by somebody else; to keep the model exact it is only issued for HTTP-owned or absent addresses
                if matches!(model.get(&(s, *addr)), Some((Owner::Grpc(_), _))) {
                    continue;
                }
                let (ip, port) = addr_of(*addr);
                hb_set.lock().unwrap().remove(&(s, *addr));
                match http_deregister(c, nd, SVCS[s], &ip, port) {
                    Ok(true) => {
                        model.remove(&(s, *addr));
                    }
                    Ok(false) => {}
                    Err(e) => {
                        err = Some(format!("op #{} {:?}: {}", opi, op, e));
                        break;
                    }
                }
            }
            Op::HttpAbandon { svc, addr } => {
                let s = *svc as usize % 3;
                if matches!(model.get(&(s, *addr)), Some((Owner::Http, _))) {
                    hb_set.lock().unwrap().remove(&(s, *addr));
                    model.remove(&(s, *addr));
                    labels.insert("http_client_abandoned_its_instance".into());
                    abandoned.insert((s, *addr), opi);
                }
            }
            Op::Flap { svc, addr, node, weight, end_registered } => {
                let nd = *node as usize % 3;
                if down == Some(nd) {
                    continue;
                }
                let s = *svc as usize % 3;
                // only for addresses that are not connection-owned (see HttpDeregister)
                if matches!(model.get(&(s, *addr)), Some((Owner::Grpc(_), _))) {
                    continue;
                }
                let (ip, port) = addr_of(*addr);
                labels.insert("two_requests_for_one_address_back_to_back".into());
                let r = if *end_registered {
                    hb_set.lock().unwrap().remove(&(s, *addr));
                    http_deregister(c, nd, SVCS[s], &ip, port).and_then(|a| http_register(c, nd, SVCS[s], &ip, port, *weight).map(|b| (a, b)))
                } else {
                    http_register(c, nd, SVCS[s], &ip, port, *weight).and_then(|a| {
                        hb_set.lock().unwrap().remove(&(s, *addr));
                        http_deregister(c, nd, SVCS[s], &ip, port).map(|b| (a, b))
                    })
                };
                if std::env::var("RNV_DEBUG").is_ok() {
                    eprintln!("flap {:?} -> {:?}", op, r);
                }
                match r {
                    // each request counts on its own, like the single operations (a refused one changes nothing)
                    Ok((first_ok, second_ok)) => {
                        let (reg_ok, dereg_ok) = if *end_registered { (second_ok, first_ok) } else { (first_ok, second_ok) };
                        if *end_registered {
                            if dereg_ok {
                                model.remove(&(s, *addr));
                            }
                            if reg_ok {
                                model.insert((s, *addr), (Owner::Http, *weight));
                                hb_set.lock().unwrap().insert((s, *addr), nd);
                                writers.entry((s, *addr)).or_default().insert(nd);
                            }
                        } else {
                            if reg_ok {
                                model.insert((s, *addr), (Owner::Http, *weight));
                                writers.entry((s, *addr)).or_default().insert(nd);
                            }
                            if dereg_ok {
                                model.remove(&(s, *addr));
                            } else if model.contains_key(&(s, *addr)) {
                                hb_set.lock().unwrap().insert((s, *addr), nd);
                            }
                        }
                    }
                    Err(e) => {
                        err = Some(format!("op #{} {:?}: {}", opi, op, e));
                        break;
                    }
                }
            }
            Op::GrpcConnect { conn, node } => {
                let k = *conn as usize % 3;
                let mut nd = *node as usize % 3;
                // a node that was restarted by KillRestartQuick gets no gRPC client any more
                if quiet_nodes.contains(&nd) {
                    nd = (nd + 1) % 3;
                }
                if down == Some(nd) || conns[k].is_some() || quiet_nodes.contains(&nd) {
                    continue;
                }
                match GrpcConn::connect(c.nodes[nd].grpc, nd) {
                    Ok(g) => conns[k] = Some(g),
                    Err(e) => {
                        err = Some(format!("op #{} {:?}: {}", opi, op, e));
                        break;
                    }
                }
                labels.insert("grpc_connection".into());
            }
            Op::GrpcRegister { conn, svc, addr } | Op::GrpcDeregister { conn, svc, addr } => {
                let k = *conn as usize % 3;
                let s = *svc as usize % 3;
                let reg = matches!(op, Op::GrpcRegister { .. });
                if let Some(g) = &conns[k] {
                    // addresses 6..11 are only ever written over gRPC, each by one connection at a time
                    if let Some((Owner::Grpc(o), _)) = model.get(&(s, *addr)) {
                        if *o != k {
                            continue;
                        }
                    }
                    if !reg && !model.contains_key(&(s, *addr)) {
                        continue;
                    }
                    let (ip, port) = addr_of(*addr);
                    match g.instance(SVCS[s], &ip, port, reg) {
                        Ok(()) => {
                            if reg {
                                model.insert((s, *addr), (Owner::Grpc(k), 1));
                                let w = writers.entry((s, *addr)).or_default();
                                w.insert(g.node);
                            } else {
                                model.remove(&(s, *addr));
                            }
                        }
                        Err(e) => {
                            err = Some(format!("op #{} {:?}: {}", opi, op, e));
                            break;
                        }
                    }
                }
            }
            Op::GrpcClose { conn } => {
                let k = *conn as usize % 3;
                if let Some(g) = conns[k].take() {
                    g.close();
                    model.retain(|_, (o, _)| *o != Owner::Grpc(k));
                    labels.insert("grpc_disconnect".into());
                }
            }
            Op::Kill { node } => {
                if down.is_none() {
                    let nd = *node as usize % 3;
                    // connections attached to the killed node die with it: their instances must disappear
                    for k in 0..3 {
                        if conns[k].as_ref().map(|g| g.node == nd).unwrap_or(false) {
                            if model.values().any(|(o, _)| *o == Owner::Grpc(k)) {
                                killed_with_grpc = true;
                            }
                            if let Some(g) = conns[k].take() {
                                // the client process is gone too in this scenario (no reconnect)
                                drop(g.tx.send(GMsg::Close));
                            }
                            model.retain(|_, (o, _)| *o != Owner::Grpc(k));
                        }
                    }
                    alive_flags[nd].store(false, Ordering::SeqCst);
                    c.kill(nd);
                    down = Some(nd);
                    labels.insert("node_killed".into());
                    if first_kill.is_none() {
                        first_kill = Some(opi);
                    }
                }
            }
            Op::KillRestartQuick { node } => {
                if down.is_none() {
                    let nd = *node as usize % 3;
                    for k in 0..3 {
                        if conns[k].as_ref().map(|g| g.node == nd).unwrap_or(false) {
                            if model.values().any(|(o, _)| *o == Owner::Grpc(k)) {
                                killed_with_grpc = true;
                                labels.insert("node_with_grpc_registrations_restarted_at_once".into());
                            }
                            if let Some(g) = conns[k].take() {
                                drop(g.tx.send(GMsg::Close));
                            }
                            model.retain(|_, (o, _)| *o != Owner::Grpc(k));
                        }
                    }
                    alive_flags[nd].store(false, Ordering::SeqCst);
                    c.kill(nd);
                    labels.insert("node_killed".into());
                    if let Err(e) = c.start_node(nd).and_then(|_| c.wait_http(nd, 30)) {
                        err = Some(format!("op #{}: node {} does not restart: {}", opi, nd + 1, e));
                        break;
                    }
                    alive_flags[nd].store(true, Ordering::SeqCst);
                    quiet_nodes.insert(nd);
                    labels.insert("node_restarted".into());
                }
            }
            Op::Restart => {
                if let Some(nd) = down.take() {
                    if let Err(e) = c.start_node(nd).and_then(|_| c.wait_http(nd, 30)) {
                        err = Some(format!("op #{}: node {} does not restart: {}", opi, nd + 1, e));
                        break;
                    }
                    alive_flags[nd].store(true, Ordering::SeqCst);
                    labels.insert("node_restarted".into());
                }
            }
            Op::Pause { ms } => std::thread::sleep(Duration::from_millis(*ms as u64)),
        }
        // heartbeats follow the model: every HTTP-owned registration the model holds keeps beating (through the
        // node it last used, or any node), nothing else does
        {
            let mut hb = hb_set.lock().unwrap();
            hb.retain(|k, _| matches!(model.get(k), Some((Owner::Http, _))));
            for (k, (o, _)) in model.iter() {
                if *o == Owner::Http && !hb.contains_key(k) {
                    hb.insert(*k, 0);
                }
            }
        }
    }
    // ---- wait for convergence: all live nodes return exactly the model, identically
    let mut last_diff = String::new();
    #[allow(unused_assignments)]
    let _ = &last_diff;
    let mut converged = false;
    if err.is_none() {
        let deadline = Instant::now() + Duration::from_secs(100);
        while Instant::now() < deadline {
            let live: Vec<usize> = (0..3).filter(|i| Some(*i) != down && c.is_running(*i)).collect();
            let mut ok = true;
            last_diff.clear();
            'outer: for s in 0..3 {
                // weights are compared with the model only while no node was killed: after a kill a heartbeat may
                // re-create an instance on the new responsible node, and a beat carries no weight the server uses
                let strict_weight = !labels.contains("node_killed");
                let want: BTreeSet<(String, u32, bool, bool, String)> = model
                    .iter()
                    .filter(|((sv, _), _)| *sv == s)
                    .map(|((_, a), (_, w))| {
                        let (ip, port) = addr_of(*a);
                        (ip, port, true, true, if strict_weight { format!("{:.1}", *w as f64) } else { String::new() })
                    })
                    .collect();
                let mut first: Option<(usize, BTreeSet<(String, u32, bool, bool, String)>)> = None;
                for nd in &live {
                    match list(c, *nd, SVCS[s]) {
                        Ok(got) => {
                            // (1) the statement itself: every live node returns the same set (address, health, enabled, weight)
                            if let Some((n0, g0)) = &first {
                                if *g0 != got {
                                    ok = false;
                                    last_diff = format!("service {}: node {} returns {:?} but node {} returns {:?}", SVCS[s], n0 + 1, g0, nd + 1, got);
                                    break 'outer;
                                }
                            } else {
                                first = Some((*nd, got.clone()));
                            }
                            // (2) and that set is the surviving registrations: nothing lost, nothing stale
                            let cmp: BTreeSet<(String, u32, bool, bool, String)> =
                                got.iter().map(|x| (x.0.clone(), x.1, x.2, x.3, if strict_weight { x.4.clone() } else { String::new() })).collect();
                            if cmp != want {
                                ok = false;
                                let missing: Vec<_> = want.difference(&cmp).cloned().collect();
                                let extra: Vec<_> = cmp.difference(&want).cloned().collect();
                                last_diff = format!("service {} on node {}: missing {:?}, unexpected {:?}", SVCS[s], nd + 1, missing, extra);
                                break 'outer;
                            }
                        }
                        Err(e) => {
                            ok = false;
                            last_diff = e;
                            break 'outer;
                        }
                    }
                }
            }
            if ok {
                converged = true;
                break;
            }
            std::thread::sleep(Duration::from_millis(1500));
        }
    }
    // (judged while heartbeats and connections are still up)
    let mut known_hit = false;
    {
        // open finding (DESIGN 8.9): an instance whose HTTP client went away, and which the node responsible for it marks
        // unhealthy at about the time the responsibility for its service moves to another live node (a third node was
        // killed), stays listed as unhealthy on every survivor for ever. Recognised narrowly: all live nodes agree with
        // each other, nothing is missing, and everything unexpected is such an abandoned instance, reported unhealthy,
        // whose abandon preceded a kill in this schedule. Anything else is reported.
        if !converged && err.is_none() && is_open("C15", KNOWN_ABANDONED_STUCK) && std::env::var("RNV_C15_STRICT").is_err() {
            let live: Vec<usize> = (0..3).filter(|i| Some(*i) != down).collect();
            let mut only_known_shape = first_kill.is_some();
            let mut hits = 0;
            'svc: for s in 0..3 {
                let want: BTreeSet<(String, u32)> = model.iter().filter(|((sv, _), _)| *sv == s).map(|((_, a), _)| addr_of(*a)).collect();
                let mut first: Option<BTreeSet<(String, u32, bool, bool, String)>> = None;
                for nd in &live {
                    match list(c, *nd, SVCS[s]) {
                        Ok(got) => {
                            if let Some(g0) = &first {
                                if *g0 != got {
                                    only_known_shape = false;
                                    break 'svc;
                                }
                            } else {
                                first = Some(got.clone());
                            }
                            let got_addrs: BTreeSet<(String, u32)> = got.iter().map(|x| (x.0.clone(), x.1)).collect();
                            if want.difference(&got_addrs).next().is_some() {
                                only_known_shape = false;
                                break 'svc;
                            }
                            for x in got.iter().filter(|x| !want.contains(&(x.0.clone(), x.1))) {
                                let key = abandoned.iter().find(|((sv, a), _)| *sv == s && addr_of(*a) == (x.0.clone(), x.1));
                                match key {
                                    Some((_, at)) if !x.2 && first_kill.map(|k| *at < k).unwrap_or(false) => hits += 1,
                                    _ => {
                                        only_known_shape = false;
                                        break 'svc;
                                    }
                                }
                            }
                            // the expected instances must be healthy
                            if got.iter().any(|x| want.contains(&(x.0.clone(), x.1)) && !x.2) {
                                only_known_shape = false;
                                break 'svc;
                            }
                        }
                        Err(_) => {
                            only_known_shape = false;
                            break 'svc;
                        }
                    }
                }
            }
            if only_known_shape && hits > 0 {
                known_hit = true;
            }
        }
    }
    hb_stop.store(true, Ordering::SeqCst);
    let _ = hb.join();
    for k in 0..3 {
        if let Some(g) = conns[k].take() {
            g.close();
        }
    }
    if let Some(e) = err {
        return CaseReport::violation(labels.into_iter().collect(), true, e);
    }
    for i in 0..3 {
        if Some(i) != down && !c.is_running(i) {
            return CaseReport::violation(labels.into_iter().collect(), true, format!("node {} died by itself: {}", i + 1, c.log_tail(i)));
        }
    }
    if !converged {
        let mut views = vec![];
        for s in 0..3 {
            for nd in 0..3 {
                if Some(nd) != down {
                    views.push(format!("{}@node{}={:?}", SVCS[s], nd + 1, list(c, nd, SVCS[s]).map(|v| v.into_iter().map(|x| format!("{}:{}:{}:{}", x.0, x.1, if x.2 { "H" } else { "u" }, x.4)).collect::<Vec<_>>())));
                }
            }
        }
        last_diff = format!("{}; all views: {:?}", last_diff, views);
        if known_hit {
            labels.insert("known_abandoned_instance_stays_listed_unhealthy_after_responsibility_moved".into());
            return CaseReport { labels: labels.into_iter().collect(), nontrivial: true, verdict: Verdict::Known(KNOWN_ABANDONED_STUCK.into()) };
        }
        return CaseReport::violation(
            labels.into_iter().collect(),
            true,
            format!("the nodes did not converge on the surviving registrations within 100 s after the last operation: {}", last_diff),
        );
    }
    if two_nodes_same_addr {
        labels.insert("same_address_written_through_two_nodes".into());
    }
    if killed_with_grpc {
        labels.insert("node_killed_while_holding_grpc_registrations".into());
    }
    CaseReport::pass(labels.into_iter().collect(), two_nodes_same_addr || killed_with_grpc)
}

pub fn main(ctx: &Ctx) -> i32 {
    // real clusters: one case legitimately takes minutes (formation, time-outs, re-runs for classification)
    if std::env::var("RNV_CASE_TIMEOUT_MS").is_err() {
        std::env::set_var("RNV_CASE_TIMEOUT_MS", "600000");
    }
    let work = work_dir(ctx);
    let fin = || Finish {
        level: "exploration",
        rule: "schedules (10..36 ops) on real 3-node clusters: HTTP register (explicit weights 2..4; weight 1 means 'not given' to the handler) / deregister addressed to generated nodes over 3 services x 6 addresses, gRPC register / deregister of 6 further addresses through up to three held bi-stream connections attached to generated nodes, connection close, pauses, back-to-back update+deregister / deregister+register of one address (inside one sync batch), and (second class) kill -9 / restart of one node, (third class) kill -9 of a node that holds gRPC registrations followed by its immediate restart (inside the 15 s after which its peers would declare it dead) with no gRPC client connecting to it afterwards, (fourth class) HTTP clients that die without deregistering (heartbeats just stop) followed 17..27 s later - the instances are unhealthy but not yet removed - by kill -9 of a node, (fifth class) gRPC registrations through node B, then kill -9 + immediate restart of another node C (it learns those registrations only from the snapshot it asks for after its start), 3..9 s later kill -9 of B; HTTP heartbeats are kept going every 2 s for HTTP instances the model holds. Oracle: within 100 s after the last op (1) all live nodes return the same set (ip, port, healthy, enabled, weight) for every service and (2) that set is exactly the model's surviving registrations, healthy and enabled - instances of connections attached to a killed node, of closed connections and deregistered ones are gone, everything else present; weights are compared with the model only in schedules without a kill (after a kill a heartbeat may re-create an instance on the new responsible node and the server takes no weight from a beat). Saved replays are re-run first. non-trivial = one address written through two different nodes, or a node killed while holding gRPC registrations; distinct = hash of the schedule".into(),
        assumptions: vec![
            "message schedules between the nodes are sampled by real execution, not controlled ('delayed batch overtaking a remove' is reachable only by luck)".into(),
            "HTTP deregistration is only issued for addresses that are not connection-owned; gRPC addresses are written by one connection at a time (keeps the reference model exact)".into(),
        ],
        exhaustive: None,
    };
    let seed = ctx.seed;
    if let Some(p) = &ctx.replay {
        let r = match read_replay::<Case>(p) {
            Ok(c) => finish_replay(ctx, run_case(&c, &work, seed), p),
            Err(e) => {
                eprintln!("cannot read replay: {}", e);
                2
            }
        };
        if std::env::var("RNV_KEEP_WORK").is_err() {
            std::fs::remove_dir_all(&work).ok();
        }
        return r;
    }
    let stats = Arc::new(Stats::default());
    let w1 = work.clone();
    if let Some((p, m)) = rerun_saved_replays::<Case, _>(ctx, &stats, 5, move |c| run_case(c, &w1, seed)) {
        write_evidence(ctx, &stats, &fin(), 1);
        println!("violation detail: {}", m);
        println!("VIOLATION property={} replay={}", ctx.id, p.display());
        std::fs::remove_dir_all(&work).ok();
        return 1;
    }
    let n_plain = ctx.tier.pick(10u32, 40u32);
    let n_kill = ctx.tier.pick(9u32, 40u32);
    let w2 = work.clone();
    let fail = run_cases(ctx, &stats, (|| case_strategy(false)) as fn() -> _, n_plain, 5, 4, move |c| run_case(c, &w2, seed));
    if fail.is_some() {
        std::fs::remove_dir_all(&work).ok();
        return finish(ctx, &stats, fin(), fail);
    }
    let w3 = work.clone();
    let fail = run_cases(ctx, &stats, (|| case_strategy(true)) as fn() -> _, n_kill, 5, 4, move |c| run_case(c, &w3, seed));
    if fail.is_some() {
        std::fs::remove_dir_all(&work).ok();
        return finish(ctx, &stats, fin(), fail);
    }
    // fourth class: abandoned HTTP instances + kill of a node while they are unhealthy but not yet removed
    let w5 = work.clone();
    let n_ab = ctx.tier.pick(5u32, 30u32);
    let fail = run_cases(ctx, &stats, case_strategy_abandon_kill as fn() -> _, n_ab, 5, 4, move |c| run_case(c, &w5, seed));
    if fail.is_some() {
        std::fs::remove_dir_all(&work).ok();
        return finish(ctx, &stats, fin(), fail);
    }
    // third class: a node that holds gRPC registrations is killed and restarted at once
    let w4 = work.clone();
    let n_quick = ctx.tier.pick(5u32, 30u32);
    let fail = run_cases(ctx, &stats, case_strategy_quick_restart as fn() -> _, n_quick, 5, 4, move |c| run_case(c, &w4, seed));
    if fail.is_some() {
        std::fs::remove_dir_all(&work).ok();
        return finish(ctx, &stats, fin(), fail);
    }
    // fifth class: a node learns gRPC registrations by snapshot only, then the node that holds them is killed
    let w6 = work.clone();
    let n_learn = ctx.tier.pick(5u32, 30u32);
    let fail = run_cases(ctx, &stats, case_strategy_snapshot_learner_then_owner_killed as fn() -> _, n_learn, 5, 4, move |c| run_case(c, &w6, seed));
    std::fs::remove_dir_all(&work).ok();
    finish(ctx, &stats, fin(), fail)
}
