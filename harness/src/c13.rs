//! C13 - ephemeral HTTP instances expire without heartbeats, never while heart-beating.
//! Real time on a real single-node server (health time-out 1 s + 3 s = 4 s, instance time-out
//! 2 s + 3 s = 5 s, 2 s check tick). One batch = many generated instance timelines (register time,
//! heartbeat period, stop time, kind) run concurrently; the instance lists are sampled every 400 ms
//! and every sample is judged against one-sided admissible windows derived from the heartbeat times.

use crate::cluster::*;
use crate::engine::*;
use proptest::prelude::*;
use serde::{Deserialize, Serialize};
use serde_json::Value;
use std::collections::{BTreeMap, BTreeSet};
use std::path::Path;
use std::sync::{Arc, Mutex};
use std::time::{Duration, Instant};

#[derive(Debug, Clone, Serialize, Deserialize, PartialEq)]
pub enum Kind {
    HttpEphemeral,
    Persistent,
    /// registered persistent, re-registered as ephemeral 1.5 s later, heart-beating from then on (only in batches with
    /// the TCP probe of persistent instances switched on): once it is ephemeral only the heartbeat clock may judge it
    FlipToEphemeral,
}

#[derive(Debug, Clone, Serialize, Deserialize)]
pub struct Timeline {
    pub kind: Kind,
    pub service: u8,
    /// register at this offset (ms)
    pub register_at: u16,
    /// heartbeat period in ms (0 = never beats)
    pub period: u16,
    /// heartbeats stop at this offset (ms); 0xffff = never
    pub stop_at: u16,
    /// register again at this offset (0 = no)
    pub reregister_at: u16,
}

#[derive(Debug, Clone, Serialize, Deserialize)]
pub struct Batch {
    pub timelines: Vec<Timeline>,
    /// the server probes persistent instances every 5 s (the generated addresses refuse connections); such a batch holds
    /// heart-beating ephemeral instances and instances that change kind, and only the "never while heart-beating" clause
    /// is judged (with the probe running, expiry was observed a few hundred ms late on a loaded machine)
    #[serde(default)]
    pub probe_on: bool,
}

const WINDOW_MS: u64 = 16_000;
const HEALTH_MS: u64 = 4_000; // RNACOS_NAMING_HEALTH_TIMEOUT_SECOND=1 (+3 s added by the code)
const REMOVE_MS: u64 = 5_000; // RNACOS_NAMING_INSTANCE_TIMEOUT_SECOND=2 (+3 s)
const TICK_MS: u64 = 2_000;
const SLACK_MS: u64 = 1_500;

fn timeline_strategy() -> impl Strategy<Value = Timeline> {
    (
        prop_oneof![5 => Just(Kind::HttpEphemeral), 1 => Just(Kind::Persistent)],
        0u8..4,
        0u16..5000,
        prop_oneof![2 => Just(500u16), 3 => Just(1500u16), 3 => Just(3000u16), 3 => Just(4500u16), 2 => Just(0u16), 2 => 600u16..5200],
        prop_oneof![3 => Just(0xffffu16), 4 => 2000u16..12000],
        prop_oneof![4 => Just(0u16), 1 => 9000u16..14000],
    )
        .prop_map(|(kind, service, register_at, period, stop_at, reregister_at)| Timeline {
            kind,
            service,
            register_at,
            period,
            stop_at,
            reregister_at,
        })
}

pub fn batch_strategy(n: usize) -> impl Strategy<Value = Batch> {
    prop::collection::vec(timeline_strategy(), n..=n).prop_map(|timelines| Batch { timelines, probe_on: false })
}

/// batch for a server with the TCP probe on: kind flips and heart-beating controls
pub fn flip_batch_strategy(n: usize) -> impl Strategy<Value = Batch> {
    let tl = (prop::bool::weighted(0.65), 0u8..4, 0u16..4000, prop_oneof![Just(800u16), Just(1000u16), Just(1500u16)], prop_oneof![2 => Just(0xffffu16), 1 => 9000u16..14000]).prop_map(|(flip, service, register_at, period, stop_at)| Timeline {
        kind: if flip { Kind::FlipToEphemeral } else { Kind::HttpEphemeral },
        service,
        register_at,
        period,
        stop_at,
        reregister_at: 0,
    });
    prop::collection::vec(tl, n..=n).prop_map(|timelines| Batch { timelines, probe_on: true })
}

#[derive(Debug, Clone, Default)]
struct Beats {
    /// (send started, send completed) in ms since batch start, successful sends only
    sends: Vec<(u64, u64)>,
    /// sends that failed or are in flight make the upper clauses undecidable around them
    failed: Vec<(u64, u64)>,
}

#[derive(Debug, Clone)]
struct Sample {
    start: u64,
    end: u64,
    /// (ip, port) -> healthy
    hosts: BTreeMap<(String, u32), bool>,
}

fn svc_name(s: u8) -> String {
    format!("c13-svc-{}", s % 4)
}

fn ip_port(i: usize) -> (String, u32) {
    (format!("10.13.{}.{}", i / 200, 1 + i % 200), 7000 + (i % 50) as u32)
}

fn send_register(c: &reqwest::blocking::Client, base: &str, t: &Timeline, i: usize, force_ephemeral: Option<bool>) -> bool {
    let (ip, port) = ip_port(i);
    let eph = match force_ephemeral {
        Some(true) => "true",
        Some(false) => "false",
        None => if t.kind == Kind::Persistent { "false" } else { "true" },
    };
    c.post(format!("{}/nacos/v1/ns/instance", base))
        .form(&[("serviceName", svc_name(t.service)), ("ip", ip), ("port", port.to_string()), ("ephemeral", eph.to_string()), ("namespaceId", "".to_string()), ("groupName", "DEFAULT_GROUP".to_string())])
        .send()
        .map(|r| r.status().is_success())
        .unwrap_or(false)
}

fn send_beat(c: &reqwest::blocking::Client, base: &str, t: &Timeline, i: usize) -> bool {
    let (ip, port) = ip_port(i);
    c.put(format!("{}/nacos/v1/ns/instance/beat", base))
        .query(&[("serviceName", svc_name(t.service)), ("ip", ip), ("port", port.to_string()), ("ephemeral", "true".to_string()), ("namespaceId", "".to_string()), ("groupName", "DEFAULT_GROUP".to_string())])
        .send()
        .map(|r| r.status().is_success())
        .unwrap_or(false)
}

pub fn run_batch(batch: &Batch, work: &Path, tag: &str, stats: &Stats) -> Result<Vec<String>, String> {
    let mut env = BTreeMap::new();
    env.insert("RNACOS_NAMING_HEALTH_TIMEOUT_SECOND".to_string(), "1".to_string());
    env.insert("RNACOS_NAMING_INSTANCE_TIMEOUT_SECOND".to_string(), "2".to_string());
    env.insert("RNACOS_HTTP_WORKERS".to_string(), "8".to_string());
    // persistent instances are health-checked by a TCP probe of their address (not by the heartbeat clock);
    // the generated addresses do not exist, so the probe is switched off
    env.insert("RNACOS_NAMING_PERPETUAL_INSTANCE_PROBE_INTERVAL_SECOND".to_string(), if batch.probe_on { "5" } else { "0" }.to_string());
    let mut c = Cluster::new(work, tag, 1, 0, env).map_err(|e| format!("DISCARD {}", e))?;
    c.start_node(0).map_err(|e| format!("DISCARD {}", e))?;
    c.wait_http(0, 30).map_err(|e| format!("DISCARD {}", e))?;
    c.wait_quiescent(30).map_err(|e| format!("DISCARD {}", e))?;
    let base = c.http(0);
    let n = batch.timelines.len();
    let beats: Arc<Vec<Mutex<Beats>>> = Arc::new((0..n).map(|_| Mutex::new(Beats::default())).collect());
    let samples: Arc<Mutex<Vec<(u8, Sample)>>> = Arc::new(Mutex::new(vec![]));
    let t0 = Instant::now();
    let now_ms = move || t0.elapsed().as_millis() as u64;
    // event list per timeline
    // code: 0 = beat, 1 = register (kind of the timeline), 2 = register persistent, 3 = register ephemeral (the flip)
    let mut events: Vec<(u64, usize, u8)> = vec![];
    for (i, t) in batch.timelines.iter().enumerate() {
        if t.kind == Kind::FlipToEphemeral {
            events.push((t.register_at as u64, i, 2));
            events.push((t.register_at as u64 + 1500, i, 3));
            let mut at = t.register_at as u64 + 1500 + t.period.max(500) as u64;
            let stop = if t.stop_at == 0xffff { WINDOW_MS } else { t.stop_at as u64 };
            while at < stop.min(WINDOW_MS) {
                events.push((at, i, 0));
                at += t.period.max(500) as u64;
            }
            continue;
        }
        events.push((t.register_at as u64, i, 1));
        if t.reregister_at > 0 {
            events.push((t.reregister_at as u64, i, 1));
        }
        if t.kind == Kind::HttpEphemeral && t.period > 0 {
            let mut at = t.register_at as u64 + t.period as u64;
            let stop = if t.stop_at == 0xffff { WINDOW_MS } else { t.stop_at as u64 };
            while at < stop.min(WINDOW_MS) {
                events.push((at, i, 0));
                at += t.period as u64;
            }
        }
    }
    events.sort();
    let events = Arc::new(events);
    let next = Arc::new(std::sync::atomic::AtomicUsize::new(0));
    let tl = Arc::new(batch.timelines.clone());
    std::thread::scope(|s| {
        // senders
        for _ in 0..12 {
            let events = events.clone();
            let next = next.clone();
            let beats = beats.clone();
            let tl = tl.clone();
            let base = base.clone();
            s.spawn(move || {
                let client = reqwest::blocking::Client::builder().timeout(Duration::from_secs(3)).build().unwrap();
                loop {
                    let k = next.fetch_add(1, std::sync::atomic::Ordering::SeqCst);
                    if k >= events.len() {
                        break;
                    }
                    let (at, i, code) = events[k];
                    let now = now_ms();
                    if at > now {
                        std::thread::sleep(Duration::from_millis(at - now));
                    }
                    let st = now_ms();
                    let ok = match code {
                        0 => send_beat(&client, &base, &tl[i], i),
                        1 => send_register(&client, &base, &tl[i], i, None),
                        2 => send_register(&client, &base, &tl[i], i, Some(false)),
                        _ => send_register(&client, &base, &tl[i], i, Some(true)),
                    };
                    let en = now_ms();
                    let mut b = beats[i].lock().unwrap();
                    // for an instance that changes kind only the heartbeats after the change count (the registration that
                    // changes the kind removes the persistent record through Raft, and the fresh ephemeral one with it,
                    // until the next heartbeat re-creates it - observed on the unchanged tree, outside C13's statement)
                    if tl[i].kind == Kind::FlipToEphemeral && code != 0 {
                        continue;
                    }
                    if ok {
                        b.sends.push((st, en));
                    } else {
                        b.failed.push((st, en));
                    }
                }
            });
        }
        // sampler
        let samples = samples.clone();
        let base2 = base.clone();
        s.spawn(move || {
            let client = reqwest::blocking::Client::builder().timeout(Duration::from_secs(3)).build().unwrap();
            while now_ms() < WINDOW_MS + REMOVE_MS + 2 * TICK_MS + SLACK_MS + 1_500 {
                for sv in 0u8..4 {
                    let st = now_ms();
                    let r = client
                        .get(format!("{}/nacos/v1/ns/instance/list", base2))
                        .query(&[("serviceName", svc_name(sv)), ("healthyOnly", "false".to_string()), ("namespaceId", "".to_string()), ("groupName", "DEFAULT_GROUP".to_string())])
                        .send();
                    let en = now_ms();
                    if let Ok(r) = r {
                        if let Ok(v) = r.json::<Value>() {
                            let mut hosts = BTreeMap::new();
                            if let Some(hs) = v["hosts"].as_array() {
                                for h in hs {
                                    hosts.insert((h["ip"].as_str().unwrap_or("").to_string(), h["port"].as_u64().unwrap_or(0) as u32), h["healthy"].as_bool().unwrap_or(false));
                                }
                            }
                            samples.lock().unwrap().push((sv, Sample { start: st, end: en, hosts }));
                        }
                    }
                }
                std::thread::sleep(Duration::from_millis(400));
            }
        });
    });
    let alive = c.is_running(0);
    let tail = c.log_tail(0);
    c.cleanup();
    if !alive {
        return Err(format!("server died during the batch: {}", tail));
    }
    // ---- judge
    let samples = samples.lock().unwrap().clone();
    let mut violations = vec![];
    for (i, t) in batch.timelines.iter().enumerate() {
        let b = beats[i].lock().unwrap().clone();
        let key = ip_port(i);
        let mut straddles = false;
        if t.period >= 3000 && t.period <= 5200 {
            straddles = true;
        }
        let mut judged = 0;
        for (sv, smp) in samples.iter().filter(|(sv, _)| *sv == t.service % 4) {
            let _ = sv;
            let present = smp.hosts.get(&key).copied();
            // sends around the sample
            // strictly before: the clock has 1 ms resolution, "same millisecond" does not order the two events
            let completed_before: Vec<&(u64, u64)> = b.sends.iter().filter(|(_, e)| *e < smp.start).collect();
            let any_overlap = b.sends.iter().chain(b.failed.iter()).any(|(s0, e0)| *s0 <= smp.end && *e0 >= smp.start);
            if completed_before.is_empty() {
                continue; // not registered for sure yet
            }
            match t.kind {
                Kind::Persistent => {
                    if !any_overlap {
                        judged += 1;
                        match present {
                            None => violations.push(format!("persistent instance {:?} (timeline #{}) is missing at t={} ms; it is never expired by the heartbeat clock", key, i, smp.start)),
                            Some(false) => violations.push(format!("persistent instance {:?} (timeline #{}) was marked unhealthy by the heartbeat clock at t={} ms", key, i, smp.start)),
                            Some(true) => {}
                        }
                    }
                }
                Kind::HttpEphemeral | Kind::FlipToEphemeral => {
                    // lower clause: healthy and present while the newest fully completed send is younger than the
                    // health time-out, measured from the START of that send (the server stamps it later than that)
                    let h_start = completed_before.iter().map(|(s0, _)| *s0).max().unwrap_or(0);
                    if smp.end + 50 < h_start + HEALTH_MS {
                        judged += 1;
                        match present {
                            Some(true) => {}
                            Some(false) => violations.push(format!(
                                "instance {:?} (timeline #{}, heartbeat period {} ms) is reported unhealthy at t={}..{} ms although a heartbeat/registration was sent at t={} ms (< {} ms ago)",
                                key, i, t.period, smp.start, smp.end, h_start, HEALTH_MS
                            )),
                            None => violations.push(format!(
                                "instance {:?} (timeline #{}, heartbeat period {} ms) is missing at t={}..{} ms although a heartbeat/registration was sent at t={} ms (< {} ms ago)",
                                key, i, t.period, smp.start, smp.end, h_start, HEALTH_MS
                            )),
                        }
                        stats.label("judged_must_be_healthy");
                    }
                    // upper clauses: only when no send (successful or not) started after the newest completed one and
                    // before the sample end
                    let h_end = b.sends.iter().chain(b.failed.iter()).filter(|(s0, _)| *s0 <= smp.end).map(|(_, e0)| *e0).max().unwrap_or(0);
                    let in_flight = b.sends.iter().chain(b.failed.iter()).any(|(s0, e0)| *s0 <= smp.end && *e0 > smp.start);
                    if !in_flight && !batch.probe_on {
                        if smp.start > h_end + HEALTH_MS + TICK_MS + SLACK_MS {
                            judged += 1;
                            if present == Some(true) {
                                violations.push(format!(
                                    "instance {:?} (timeline #{}) is still reported healthy at t={} ms although its last heartbeat completed at t={} ms ({} ms ago; health time-out {} ms + {} ms tick + {} ms slack)",
                                    key, i, smp.start, h_end, smp.start - h_end, HEALTH_MS, TICK_MS, SLACK_MS
                                ));
                            }
                            stats.label("judged_must_be_unhealthy_or_gone");
                        }
                        if smp.start > h_end + REMOVE_MS + 2 * TICK_MS + SLACK_MS {
                            judged += 1;
                            if present.is_some() {
                                violations.push(format!(
                                    "instance {:?} (timeline #{}) is still listed at t={} ms although its last heartbeat completed at t={} ms ({} ms ago; instance time-out {} ms + 2 ticks + slack)",
                                    key, i, smp.start, h_end, smp.start - h_end, REMOVE_MS
                                ));
                            }
                            stats.label("judged_must_be_gone");
                        }
                    }
                }
            }
        }
        stats.evaluations.fetch_add(1, std::sync::atomic::Ordering::Relaxed);
        stats.label(&format!("kind_{:?}", t.kind));
        stats.label(&format!("period_{}", match t.period {
            0 => "none".to_string(),
            p if p < 1000 => "lt1s".into(),
            p if p < 3000 => "1to3s".into(),
            p if p <= 4000 => "3to4s_just_in_time".into(),
            _ => "gt4s_too_slow".into(),
        }));
        if judged > 0 && (straddles || t.reregister_at > 0 || t.kind != Kind::HttpEphemeral || t.stop_at != 0xffff) {
            stats.note_distinct(hash_json(&(tag, i, t)));
        }
        if !b.failed.is_empty() {
            stats.label("some_sends_failed");
        }
    }
    Ok(violations)
}

pub fn main(ctx: &Ctx) -> i32 {
    // real clusters: one case legitimately takes minutes (formation, time-outs, re-runs for classification)
    if std::env::var("RNV_CASE_TIMEOUT_MS").is_err() {
        std::env::set_var("RNV_CASE_TIMEOUT_MS", "300000");
    }
    let work = work_dir(ctx);
    let stats = Arc::new(Stats::default());
    let fin = || Finish {
        level: "exploration",
        rule: "one batch = 120 generated instance timelines (kind HTTP-ephemeral / persistent, register offset 0..5 s, heartbeat period 0.5 / 1.5 / 3 / 4.5 s / none / uniform 0.6..5.2 s, optional stop and re-registration) run concurrently in real time against a real single-node server with health time-out 4 s, instance time-out 5 s, 2 s tick; all four instance lists are sampled every ~400 ms for 28 s. Each (timeline, sample) is judged with one-sided windows: healthy and present while the newest completed send STARTED less than 4 s - 50 ms before the sample ended; unhealthy or gone once the last send COMPLETED more than 4 s + tick + 1.5 s before the sample started; gone after 5 s + 2 ticks + 1.5 s; persistent instances always present and healthy. evaluations = timelines; non-trivial = a judged timeline whose period straddles a threshold (3..5.2 s), that stops, re-registers or is persistent; distinct = (batch, timeline)".into(),
        assumptions: vec![
            "real clock; windows are one-sided so scheduling delay can only make the check more lenient".into(),
            "gRPC-owned and cluster-origin instances are not exercised here (C11/C12 cover their bookkeeping, C15 the cluster)".into(),
            "single node: 'and then everywhere' is C15's observation".into(),
        ],
        exhaustive: None,
    };
    if let Some(p) = &ctx.replay {
        let b: Batch = match read_replay(p) {
            Ok(b) => b,
            Err(e) => {
                eprintln!("cannot read replay: {}", e);
                return 2;
            }
        };
        // real time: the schedule is re-run up to 3 times
        let mut hits = 0;
        let mut last = String::new();
        for k in 0..3 {
            match run_batch(&b, &work, &format!("replay{}", k), &stats) {
                Ok(v) if v.is_empty() => {}
                Ok(v) => {
                    hits += 1;
                    last = v[0].clone();
                }
                Err(e) => {
                    eprintln!("replay attempt {}: {}", k, e);
                }
            }
        }
        std::fs::remove_dir_all(&work).ok();
        if hits > 0 {
            println!("violation detail: reproduced in {} of 3 attempts: {}", hits, last);
            println!("VIOLATION property={} replay={}", ctx.id, p.display());
            return 1;
        }
        println!("OK property={} replay passed (3 attempts)", ctx.id);
        return 0;
    }
    let n_batches = ctx.tier.pick(4usize, 16usize);
    let mut failure: Option<Failure<Batch>> = None;
    let mut batches: Vec<Batch> = (0..n_batches).map(|i| generate_one(&batch_strategy(120), ctx.seed.wrapping_mul(104729).wrapping_add(i as u64))).collect();
    // batches on servers with the TCP probe of persistent instances on: instances that change kind (8.9)
    let n_flip = ctx.tier.pick(1usize, 4usize);
    for i in 0..n_flip {
        batches.push(generate_one(&flip_batch_strategy(40), ctx.seed.wrapping_mul(7919).wrapping_add(1000 + i as u64)));
    }
    // regression tier: saved batches run next to the generated ones
    for p in saved_replays(&ctx.id) {
        if let Ok(b) = read_replay::<Batch>(&p) {
            batches.push(b);
            stats.label("saved_replay_rerun");
        }
    }
    let n_batches = batches.len();
    let results: Vec<(usize, Result<Vec<String>, String>)> = std::thread::scope(|s| {
        let hs: Vec<_> = batches
            .iter()
            .enumerate()
            .map(|(i, b)| {
                let work = work.clone();
                let stats = stats.clone();
                s.spawn(move || (i, run_batch(b, &work, &format!("b{}", i), &stats)))
            })
            .collect();
        hs.into_iter().filter_map(|h| h.join().ok()).collect()
    });
    let mut infra = 0;
    for (i, r) in results {
        match r {
            Ok(v) if v.is_empty() => {}
            Ok(v) => {
                // keep only the timelines named by the first violation's batch (the whole batch is the replay unit)
                if failure.is_none() {
                    failure = Some(Failure {
                        case: batches[i].clone(),
                        message: format!("{} (and {} more in this batch)", v[0], v.len() - 1),
                    });
                }
            }
            Err(e) if e.starts_with("DISCARD") => {
                infra += 1;
                eprintln!("batch {} could not start: {}", i, e);
            }
            Err(e) => {
                if failure.is_none() {
                    failure = Some(Failure {
                        case: batches[i].clone(),
                        message: e,
                    });
                }
            }
        }
    }
    stats.add_sample(serde_json::to_value(&batches[0].timelines[..5.min(batches[0].timelines.len())]).unwrap_or(Value::Null), 3);
    std::fs::remove_dir_all(&work).ok();
    if infra == n_batches {
        eprintln!("no batch could be started");
        return 2;
    }
    let _ = BTreeSet::<u8>::new();
    finish(ctx, &stats, fin(), failure)
}
