// usage: <bin> <ID> <quick|thorough> [--replay <file>]   (env VERIF_SEED=<u64>, default 1)
mod catalogue;
mod check;
mod fixture;
mod routes;
mod srv;
use rnv_engine::{Ctx, Tier};
fn main() {
    let args: Vec<String> = std::env::args().collect();
    if args.len() < 3 {
        eprintln!("usage: {} <ID> <quick|thorough> [--replay <file>]", args[0]);
        std::process::exit(2);
    }
    let tier = if args[2] == "thorough" { Tier::Thorough } else { Tier::Quick };
    let mut replay = None;
    let mut i = 3;
    while i < args.len() {
        if args[i] == "--replay" && i + 1 < args.len() {
            replay = Some(std::path::PathBuf::from(&args[i + 1]));
            i += 1;
        }
        i += 1;
    }
    let seed = std::env::var("VERIF_SEED").ok().and_then(|s| s.parse::<u64>().ok()).unwrap_or(1);
    let ctx = Ctx { id: args[1].clone(), tier, seed, replay, start: std::time::Instant::now() };
    std::process::exit(check::main(&ctx));
}
