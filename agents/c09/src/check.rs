pub fn main(_ctx: &rnv_engine::Ctx) -> i32 {
    eprintln!("not built yet");
    2
}
