//! Entry point: C16 (OpenAPI / gRPC auth) and C17 (console session + role enforcement).
use rnv_engine::Ctx;

pub fn main(ctx: &Ctx) -> i32 {
    match ctx.id.as_str() {
        "C16" => crate::c16::main(ctx),
        "C17" => crate::c17::main(ctx),
        "ROUTES" => {
            for r in crate::c16::discover_sdk_routes().unwrap_or_default() {
                println!("SDK {}", r);
            }
            for r in crate::routes::discover(rnacos::web_config::console_config).unwrap_or_default() {
                println!("CONSOLE {}", r);
            }
            0
        }
        other => {
            eprintln!("unknown property {} (this binary serves C16 and C17)", other);
            2
        }
    }
}
