//! Common machinery: check context, proptest driver (fixed seed, no persistence, parallel
//! workers with derived seeds), case classification, evidence, known findings, replay files.

use proptest::strategy::{Strategy, ValueTree};
use proptest::test_runner::{Config, RngSeed, TestCaseError, TestError, TestRunner};
use serde::de::DeserializeOwned;
use serde::Serialize;
use serde_json::{json, Value};
use std::collections::hash_map::DefaultHasher;
use std::collections::{BTreeMap, HashSet};
use std::hash::{Hash, Hasher};
use std::path::{Path, PathBuf};
use std::sync::atomic::{AtomicBool, AtomicU64, Ordering};
use std::sync::{Arc, Mutex};
use std::time::Instant;

pub const VERIF_ROOT: &str = "/verif";

#[derive(Clone, Copy, PartialEq, Eq, Debug)]
pub enum Tier {
    Quick,
    Thorough,
}

impl Tier {
    pub fn name(&self) -> &'static str {
        match self {
            Tier::Quick => "quick",
            Tier::Thorough => "thorough",
        }
    }
    /// pick by tier
    pub fn pick<T>(&self, quick: T, thorough: T) -> T {
        match self {
            Tier::Quick => quick,
            Tier::Thorough => thorough,
        }
    }
}

pub struct Ctx {
    pub id: String,
    pub tier: Tier,
    pub seed: u64,
    pub replay: Option<PathBuf>,
    pub start: Instant,
}

/// What one executed case tells the engine.
#[derive(Debug, Clone)]
pub enum Verdict {
    Pass,
    /// property violated: human readable explanation
    Violation(String),
    /// matches an entry of known_findings.json (signature)
    Known(String),
    /// could not be judged (infrastructure) - never after the SUT accepted generated ops
    Discard(String),
}

#[derive(Debug, Clone)]
pub struct CaseReport {
    pub labels: Vec<String>,
    pub nontrivial: bool,
    pub verdict: Verdict,
}

impl CaseReport {
    pub fn pass(labels: Vec<String>, nontrivial: bool) -> Self {
        Self {
            labels,
            nontrivial,
            verdict: Verdict::Pass,
        }
    }
    pub fn violation(labels: Vec<String>, nontrivial: bool, msg: impl Into<String>) -> Self {
        let msg = msg.into();
        // a foreign process holding one of the loopback ports of a test server is interference from the
        // environment, not behaviour of the code under test: such a case is discarded (counted), never reported
        if msg.contains("Address already in use") || msg.contains("AddrInUse") {
            return Self {
                labels: vec!["discarded_port_taken_by_foreign_process".into()],
                nontrivial: false,
                verdict: Verdict::Discard(msg),
            };
        }
        Self {
            labels,
            nontrivial,
            verdict: Verdict::Violation(msg),
        }
    }
}

#[derive(Default)]
pub struct Stats {
    pub evaluations: AtomicU64,
    pub discarded: AtomicU64,
    pub classes: Mutex<BTreeMap<String, u64>>,
    pub distinct_nontrivial: Mutex<HashSet<u64>>,
    pub samples: Mutex<Vec<Value>>,
    pub known: Mutex<BTreeMap<String, u64>>,
    pub excluded_known: AtomicU64,
    pub extra: Mutex<BTreeMap<String, Value>>,
    pub violations: AtomicU64,
}

impl Stats {
    pub fn label(&self, l: &str) {
        *self.classes.lock().unwrap().entry(l.to_string()).or_insert(0) += 1;
    }
    pub fn label_n(&self, l: &str, n: u64) {
        *self.classes.lock().unwrap().entry(l.to_string()).or_insert(0) += n;
    }
    pub fn add_sample(&self, v: Value, max: usize) {
        let mut s = self.samples.lock().unwrap();
        if s.len() < max {
            s.push(v);
        }
    }
    pub fn note_distinct(&self, h: u64) {
        self.distinct_nontrivial.lock().unwrap().insert(h);
    }
    pub fn set_extra(&self, k: &str, v: Value) {
        self.extra.lock().unwrap().insert(k.to_string(), v);
    }
    pub fn record<T: Serialize>(&self, case: &T, rep: &CaseReport) {
        self.evaluations.fetch_add(1, Ordering::Relaxed);
        for l in &rep.labels {
            self.label(l);
        }
        match &rep.verdict {
            Verdict::Discard(_) => {
                self.discarded.fetch_add(1, Ordering::Relaxed);
            }
            Verdict::Known(sig) => {
                *self.known.lock().unwrap().entry(sig.clone()).or_insert(0) += 1;
            }
            _ => {}
        }
        if rep.nontrivial {
            let enc = serde_json::to_vec(case).unwrap_or_default();
            let mut h = DefaultHasher::new();
            enc.hash(&mut h);
            self.note_distinct(h.finish());
            let mut s = self.samples.lock().unwrap();
            if s.len() < 4 {
                let v = serde_json::to_value(case).unwrap_or(Value::Null);
                s.push(truncate_json(v, 2400));
            }
        }
    }
}

/// keep evidence files readable: cut long arrays/strings in samples
pub fn truncate_json(v: Value, budget: usize) -> Value {
    let s = serde_json::to_string(&v).unwrap_or_default();
    if s.len() <= budget {
        return v;
    }
    fn shrink(v: Value, depth: usize) -> Value {
        match v {
            Value::Array(a) => {
                let n = a.len();
                let keep = if depth == 0 { 12 } else { 8 };
                let mut out: Vec<Value> = a.into_iter().take(keep).map(|x| shrink(x, depth + 1)).collect();
                if n > keep {
                    out.push(Value::String(format!("... {} more", n - keep)));
                }
                Value::Array(out)
            }
            Value::Object(o) => Value::Object(o.into_iter().map(|(k, x)| (k, shrink(x, depth + 1))).collect()),
            Value::String(s) if s.len() > 120 => {
                let cut: String = s.chars().take(100).collect();
                Value::String(format!("{}...(len {})", cut, s.len()))
            }
            x => x,
        }
    }
    shrink(v, 0)
}

pub struct Failure<T> {
    pub case: T,
    pub message: String,
}

fn config(seed: u64, cases: u32) -> Config {
    Config {
        cases,
        failure_persistence: None,
        rng_seed: RngSeed::Fixed(seed),
        max_shrink_iters: 4096,
        max_shrink_time: 0,
        max_global_rejects: 65536,
        max_local_rejects: 65536,
        verbose: 0,
        ..Config::default()
    }
}

/// Run `cases` generated cases on `workers` threads (worker w uses seed `seed*1000003 + w`).
/// `f` is re-run by proptest while shrinking; statistics stop at a worker's first failure.
/// Returns the first (shrunk) failure found by any worker.
pub fn run_cases<S, F>(
    ctx: &Ctx,
    stats: &Arc<Stats>,
    strategy: fn() -> S,
    cases: u32,
    workers: usize,
    max_shrink_iters: u32,
    f: F,
) -> Option<Failure<S::Value>>
where
    S: Strategy + 'static,
    S::Value: Serialize + Clone + Send + std::fmt::Debug + 'static,
    F: Fn(&S::Value) -> CaseReport + Send + Sync + 'static,
{
    let workers = workers.max(1).min(cases.max(1) as usize);
    let f = Arc::new(f);
    let stop = Arc::new(AtomicBool::new(false));
    let result: Arc<Mutex<Option<Failure<S::Value>>>> = Arc::new(Mutex::new(None));
    let mut handles = vec![];
    // watchdog: a case that runs longer than the limit is a hang of the code under test or of the
    // harness - reported as exit 2 (inconclusive), never as a violation
    let stamps: Arc<Vec<AtomicU64>> = Arc::new((0..workers).map(|_| AtomicU64::new(0)).collect());
    let current: Arc<Vec<Mutex<Option<Value>>>> = Arc::new((0..workers).map(|_| Mutex::new(None)).collect());
    let wd_done = Arc::new(AtomicBool::new(false));
    {
        let stamps = stamps.clone();
        let current = current.clone();
        let wd_done = wd_done.clone();
        let t0 = ctx.start;
        let limit_ms = case_timeout_ms();
        let id = ctx.id.clone();
        std::thread::spawn(move || loop {
            std::thread::sleep(std::time::Duration::from_millis(500));
            if wd_done.load(Ordering::SeqCst) {
                return;
            }
            let now = t0.elapsed().as_millis() as u64;
            for (w, s) in stamps.iter().enumerate() {
                let st = s.load(Ordering::SeqCst);
                if st != 0 && now.saturating_sub(st) > limit_ms {
                    let case = current[w].lock().unwrap().clone().unwrap_or(Value::Null);
                    let p = out_root().join("replays").join(format!("{}-hang-{:016x}.json", id, hash_json(&case)));
                    std::fs::create_dir_all(p.parent().unwrap()).ok();
                    std::fs::write(&p, serde_json::to_vec_pretty(&json!({"property": id, "message": "watchdog: case did not finish", "case": case})).unwrap()).ok();
                    eprintln!(
                        "WATCHDOG property={} worker {} has been inside one case for more than {} ms - hang; inconclusive (exit 2); case saved to {}",
                        id, w, limit_ms, p.display()
                    );
                    std::process::exit(2);
                }
            }
        });
    }
    for w in 0..workers {
        let share = cases / workers as u32 + if (w as u32) < cases % workers as u32 { 1 } else { 0 };
        if share == 0 {
            continue;
        }
        let f = f.clone();
        let stats = stats.clone();
        let stop = stop.clone();
        let result = result.clone();
        let stamps = stamps.clone();
        let current = current.clone();
        let t0 = ctx.start;
        let seed = ctx.seed.wrapping_mul(1_000_003).wrapping_add(w as u64);
        let h = std::thread::Builder::new()
            .name(format!("rnv-worker-{}", w))
            .stack_size(16 * 1024 * 1024)
            .spawn(move || {
                let mut cfg = config(seed, share);
                cfg.max_shrink_iters = max_shrink_iters;
                let mut runner = TestRunner::new(cfg);
                let failed = AtomicBool::new(false);
                let last_msg: Mutex<String> = Mutex::new(String::new());
                let strategy = strategy();
                let r = runner.run(&strategy, |case| {
                    let shrinking = failed.load(Ordering::SeqCst);
                    if !shrinking && stop.load(Ordering::SeqCst) {
                        // another worker already found a failure: finish quickly
                        return Ok(());
                    }
                    *current[w].lock().unwrap() = serde_json::to_value(&case).ok();
                    stamps[w].store((t0.elapsed().as_millis() as u64).max(1), Ordering::SeqCst);
                    let rep = f(&case);
                    stamps[w].store(0, Ordering::SeqCst);
                    if !shrinking {
                        stats.record(&case, &rep);
                    }
                    match rep.verdict {
                        Verdict::Violation(msg) => {
                            failed.store(true, Ordering::SeqCst);
                            stop.store(true, Ordering::SeqCst);
                            *last_msg.lock().unwrap() = msg.clone();
                            Err(TestCaseError::fail(msg))
                        }
                        _ => Ok(()),
                    }
                });
                if let Err(e) = r {
                    match e {
                        TestError::Fail(reason, case) => {
                            let mut g = result.lock().unwrap();
                            if g.is_none() {
                                *g = Some(Failure {
                                    case,
                                    message: reason.message().to_string(),
                                });
                            }
                        }
                        TestError::Abort(reason) => {
                            eprintln!("proptest abort: {}", reason.message());
                        }
                    }
                }
            })
            .unwrap();
        handles.push(h);
    }
    for h in handles {
        let _ = h.join();
    }
    wd_done.store(true, Ordering::SeqCst);
    let mut g = result.lock().unwrap();
    g.take()
}

pub fn case_timeout_ms() -> u64 {
    std::env::var("RNV_CASE_TIMEOUT_MS").ok().and_then(|s| s.parse().ok()).unwrap_or(180_000)
}

/// Generate a single value from a strategy with a fixed seed (used by time-boxed real-time
/// checks that need one big generated schedule rather than many cases).
pub fn generate_one<S: Strategy>(strategy: &S, seed: u64) -> S::Value {
    let mut runner = TestRunner::new(config(seed, 1));
    strategy.new_tree(&mut runner).unwrap().current()
}

pub fn hash_json<T: Serialize>(v: &T) -> u64 {
    let enc = serde_json::to_vec(v).unwrap_or_default();
    let mut h = DefaultHasher::new();
    enc.hash(&mut h);
    h.finish()
}

/// Where new replay files and evidence go: /verif, or RNV_OUT_ROOT when set (sensitivity runs against a
/// deliberately broken tree must not overwrite committed evidence nor add to the regression replays).
pub fn out_root() -> PathBuf {
    match std::env::var("RNV_OUT_ROOT") {
        Ok(v) if !v.is_empty() => PathBuf::from(v),
        _ => PathBuf::from(VERIF_ROOT),
    }
}

pub fn write_replay<T: Serialize>(ctx: &Ctx, case: &T, message: &str) -> PathBuf {
    let dir = out_root().join("replays");
    std::fs::create_dir_all(&dir).ok();
    let h = hash_json(case);
    let p = dir.join(format!("{}-{:016x}.json", ctx.id, h));
    let body = json!({"property": ctx.id, "message": message, "seed": ctx.seed, "case": case});
    std::fs::write(&p, serde_json::to_vec_pretty(&body).unwrap()).ok();
    p
}

/// committed replay files of one property (replays/<ID>-*.json), sorted
pub fn saved_replays(id: &str) -> Vec<PathBuf> {
    let dir = Path::new(VERIF_ROOT).join("replays");
    let mut v: Vec<PathBuf> = match std::fs::read_dir(&dir) {
        Ok(rd) => rd
            .filter_map(|e| e.ok())
            .map(|e| e.path())
            .filter(|p| {
                p.file_name()
                    .and_then(|n| n.to_str())
                    .map(|n| n.starts_with(&format!("{}-", id)) && n.ends_with(".json") && !n.contains("-hang-"))
                    .unwrap_or(false)
            })
            .collect(),
        Err(_) => vec![],
    };
    v.sort();
    v
}


/// Re-runs every saved replay of this property (regression tier), `workers` at a time. Returns the first
/// replay that still fails (path, message). Discarded runs (infrastructure) are retried once and then ignored.
pub fn rerun_saved_replays<T, F>(ctx: &Ctx, stats: &Arc<Stats>, workers: usize, f: F) -> Option<(PathBuf, String)>
where
    T: DeserializeOwned + Serialize + Send + 'static,
    F: Fn(&T) -> CaseReport + Send + Sync + 'static,
{
    let files = saved_replays(&ctx.id);
    if files.is_empty() {
        return None;
    }
    let queue = Arc::new(Mutex::new(files));
    let fail: Arc<Mutex<Option<(PathBuf, String)>>> = Arc::new(Mutex::new(None));
    let f = Arc::new(f);
    let mut hs = vec![];
    for _ in 0..workers.max(1) {
        let queue = queue.clone();
        let fail = fail.clone();
        let stats = stats.clone();
        let f = f.clone();
        hs.push(std::thread::spawn(move || loop {
            let p = match queue.lock().unwrap().pop() {
                Some(p) => p,
                None => break,
            };
            if fail.lock().unwrap().is_some() {
                break;
            }
            let case: T = match read_replay::<T>(&p) {
                Ok(c) => c,
                Err(_) => continue,
            };
            let mut rep = f(&case);
            if matches!(rep.verdict, Verdict::Discard(_)) {
                rep = f(&case);
            }
            stats.label("saved_replay_rerun");
            stats.record(&case, &rep);
            if let Verdict::Violation(m) = &rep.verdict {
                let mut g = fail.lock().unwrap();
                if g.is_none() {
                    *g = Some((p.clone(), m.clone()));
                }
            }
        }));
    }
    for h in hs {
        let _ = h.join();
    }
    let r = fail.lock().unwrap().clone();
    r
}

pub fn read_replay<T: DeserializeOwned>(path: &Path) -> anyhow::Result<T> {
    let data = std::fs::read(path)?;
    let v: Value = serde_json::from_slice(&data)?;
    let case = v.get("case").cloned().unwrap_or(v);
    Ok(serde_json::from_value(case)?)
}

// ------------------------------------------------------------------------------------------
// known findings

#[derive(Debug, Clone, serde::Deserialize, Serialize)]
pub struct KnownFinding {
    pub property: String,
    pub signature: String,
    pub status: String,
    #[serde(default)]
    pub commit: Option<String>,
    pub what: String,
}

pub fn load_known_findings() -> Vec<KnownFinding> {
    let p = Path::new(VERIF_ROOT).join("known_findings.json");
    match std::fs::read(&p) {
        Ok(d) => serde_json::from_slice(&d).unwrap_or_default(),
        Err(_) => vec![],
    }
}

pub fn open_findings(property: &str) -> Vec<KnownFinding> {
    load_known_findings()
        .into_iter()
        .filter(|k| k.property == property && k.status == "open")
        .collect()
}

pub fn is_open(property: &str, signature: &str) -> bool {
    open_findings(property).iter().any(|k| k.signature == signature)
}

// ------------------------------------------------------------------------------------------
// evidence + exit

pub struct Finish {
    pub level: &'static str,
    pub rule: String,
    pub assumptions: Vec<String>,
    pub exhaustive: Option<bool>,
}

pub fn write_evidence(ctx: &Ctx, stats: &Stats, fin: &Finish, violations: u64) {
    let dir = out_root().join("evidence");
    std::fs::create_dir_all(&dir).ok();
    let classes = stats.classes.lock().unwrap().clone();
    let known = stats.known.lock().unwrap().clone();
    let mut coverage = json!({
        "evaluations": stats.evaluations.load(Ordering::Relaxed),
        "distinct_nontrivial": stats.distinct_nontrivial.lock().unwrap().len(),
        "rule": fin.rule,
        "samples": stats.samples.lock().unwrap().clone(),
        "classes": classes,
        "excluded_known": stats.excluded_known.load(Ordering::Relaxed),
        "known_finding_hits": known,
        "discarded": stats.discarded.load(Ordering::Relaxed),
    });
    if let Some(e) = fin.exhaustive {
        coverage["exhaustive"] = json!(e);
    }
    for (k, v) in stats.extra.lock().unwrap().iter() {
        coverage[k] = v.clone();
    }
    let ev = json!({
        "property_id": ctx.id,
        "tier": ctx.tier.name(),
        "seed": ctx.seed,
        "level": fin.level,
        "coverage": coverage,
        "assumptions": fin.assumptions,
        "wall_s": ctx.start.elapsed().as_secs_f64(),
        "violations": violations,
    });
    let p = dir.join(format!("{}.json", ctx.id));
    std::fs::write(&p, serde_json::to_vec_pretty(&ev).unwrap()).expect("write evidence");
}

/// Standard epilogue: prints KNOWN-FINDING lines, writes evidence, returns the exit code.
pub fn finish<T: Serialize>(ctx: &Ctx, stats: &Stats, fin: Finish, failure: Option<Failure<T>>) -> i32 {
    let known = stats.known.lock().unwrap().clone();
    let findings = open_findings(&ctx.id);
    // one line per listed open finding, whether or not this run reached it
    for k in &findings {
        let n = known.get(&k.signature).copied().unwrap_or(0);
        let what: String = k.what.chars().take(600).collect();
        if n > 0 {
            println!("KNOWN-FINDING: property={} {} [{}; hit {} times]", ctx.id, what, k.signature, n);
        } else {
            println!("KNOWN-FINDING: property={} {} [{}; not reached in this run]", ctx.id, what, k.signature);
        }
    }
    for (sig, n) in &known {
        if !findings.iter().any(|k| &k.signature == sig) {
            println!("KNOWN-FINDING: property={} [{}; hit {} times]", ctx.id, sig, n);
        }
    }
    let total = stats.evaluations.load(Ordering::Relaxed);
    let disc = stats.discarded.load(Ordering::Relaxed);
    match failure {
        Some(fl) => {
            stats.violations.fetch_add(1, Ordering::Relaxed);
            write_evidence(ctx, stats, &fin, 1);
            let p = write_replay(ctx, &fl.case, &fl.message);
            println!("violation detail: {}", fl.message);
            println!("VIOLATION property={} replay={}", ctx.id, p.display());
            1
        }
        None => {
            write_evidence(ctx, stats, &fin, 0);
            if total > 0 && disc * 4 > total {
                eprintln!("inconclusive: {} of {} cases discarded", disc, total);
                return 2;
            }
            println!(
                "OK property={} tier={} seed={} evaluations={} distinct_nontrivial={} wall_s={:.1}",
                ctx.id,
                ctx.tier.name(),
                ctx.seed,
                total,
                stats.distinct_nontrivial.lock().unwrap().len(),
                ctx.start.elapsed().as_secs_f64()
            );
            0
        }
    }
}

/// Replay epilogue: run one stored case strictly.
pub fn finish_replay(ctx: &Ctx, rep: CaseReport, path: &Path) -> i32 {
    println!("replay labels: {:?} nontrivial={}", rep.labels, rep.nontrivial);
    match rep.verdict {
        Verdict::Violation(m) => {
            println!("violation detail: {}", m);
            println!("VIOLATION property={} replay={}", ctx.id, path.display());
            1
        }
        Verdict::Known(sig) => {
            println!("KNOWN-FINDING: property={} replayed case matches {}", ctx.id, sig);
            0
        }
        Verdict::Discard(m) => {
            eprintln!("replay inconclusive: {}", m);
            2
        }
        Verdict::Pass => {
            println!("OK property={} replay passed", ctx.id);
            0
        }
    }
}

/// monotone index mapping (shrinks towards 0)
pub fn pick_idx(i: u16, len: usize) -> usize {
    if len == 0 {
        0
    } else {
        ((i as usize) * len) >> 16
    }
}

pub fn work_dir(ctx: &Ctx) -> PathBuf {
    let p = Path::new(VERIF_ROOT)
        .join("work")
        .join(format!("{}-{}-{}", ctx.id, ctx.tier.name(), std::process::id()));
    std::fs::remove_dir_all(&p).ok();
    std::fs::create_dir_all(&p).expect("create work dir");
    p
}

pub fn cores() -> usize {
    std::thread::available_parallelism().map(|n| n.get()).unwrap_or(4).min(16)
}
