// parent project required by cargo-fuzz; the targets live in fuzz/
