//! C20 (E4): coverage-guided search over (record lengths, zero padding, chunk partition) for the
//! length-prefixed stream codec of /repo's working tree. The codec source is included by path, so the
//! target always reflects the current tree without building the whole crate on nightly.
//! Oracle (inside the target): the stream written with write_varint64 + body decodes, through the two
//! consumer loops the store uses, to exactly the generating records under the generated chunking; the
//! reader stops at the first zero length and not earlier; writer / reader / size function agree on the
//! generated u64 values.
#![no_main]
#![allow(dead_code)]

#[path = "/repo/src/common/protobuf_utils.rs"]
mod protobuf_utils;

use arbitrary::Unstructured;
use libfuzzer_sys::fuzz_target;
use protobuf_utils::*;

const BOUNDARY: [usize; 22] = [1, 2, 3, 126, 127, 128, 129, 1021, 1022, 1023, 1024, 1025, 2047, 2048, 2049, 16382, 16383, 16384, 16385, 4096, 255, 256];

fn decode_len(u: &mut Unstructured) -> Option<usize> {
    let sel: u8 = u.arbitrary().ok()?;
    Some(match sel % 8 {
        0 | 4 | 5 => BOUNDARY[(u.arbitrary::<u8>().ok()? as usize) % BOUNDARY.len()],
        1 | 6 => 1 + (u.arbitrary::<u8>().ok()? as usize),
        2 | 7 => 1 + (u.arbitrary::<u16>().ok()? as usize) % 3000,
        _ => 1 + (u.arbitrary::<u16>().ok()? as usize) % 20000,
    })
}

fuzz_target!(|data: &[u8]| {
    let mut u = Unstructured::new(data);
    // ---- varints
    for _ in 0..3 {
        let v: u64 = match u.arbitrary::<u64>() {
            Ok(v) => {
                let sh: u8 = u.arbitrary().unwrap_or(0);
                v >> (sh % 64)
            }
            Err(_) => break,
        };
        let w = write_varint64(v);
        assert_eq!(w.len(), inner_sizeof_varint(v), "size function disagrees with the writer for {}", v);
        let mut padded = w.clone();
        padded.extend_from_slice(&[0xff, 0xff]);
        assert_eq!(read_varint64(&padded).unwrap(), v, "reader disagrees with the writer for {}", v);
        assert_eq!(read_varint64_offset(&[&[0x81u8, 0x82][..], &padded[..]].concat(), 2).unwrap(), v);
    }
    // ---- stream
    let n = (u.arbitrary::<u8>().unwrap_or(0) % 9) as usize;
    let mut lens = vec![];
    for _ in 0..n {
        match decode_len(&mut u) {
            Some(l) => lens.push(l),
            None => break,
        }
    }
    if lens.is_empty() {
        return;
    }
    let seed: u8 = u.arbitrary().unwrap_or(1);
    let padding = (u.arbitrary::<u16>().unwrap_or(0) % 3000) as usize;
    let mut stream: Vec<u8> = vec![];
    let mut records: Vec<Vec<u8>> = vec![];
    for (i, l) in lens.iter().enumerate() {
        // bodies never start with 0 and contain both high-bit and zero bytes
        let body: Vec<u8> = (0..*l).map(|k| if k == 0 { 1 | seed } else { (k as u8).wrapping_mul(seed | 1).wrapping_add(i as u8) }).collect();
        let mut rec = write_varint64(*l as u64);
        rec.extend_from_slice(&body);
        stream.extend_from_slice(&rec);
        records.push(rec);
    }
    let data_len = stream.len();
    stream.extend(std::iter::repeat(0u8).take(padding));
    // chunk partition
    let mut chunks: Vec<(usize, usize)> = vec![];
    let mode: u8 = u.arbitrary().unwrap_or(0);
    let mut pos = 0usize;
    while pos < stream.len() {
        let step = match mode % 4 {
            0 => 1024,
            1 => 1 + (u.arbitrary::<u8>().unwrap_or(7) as usize),
            2 => 1 + (u.arbitrary::<u16>().unwrap_or(900) as usize) % 2100,
            _ => {
                // cut exactly at / around a record end
                let next_end = records.iter().scan(0usize, |a, r| { *a += r.len(); Some(*a) }).find(|e| *e > pos).unwrap_or(stream.len());
                let d = (u.arbitrary::<u8>().unwrap_or(0) % 3) as usize;
                (next_end + d).saturating_sub(pos).saturating_sub(1).max(1)
            }
        };
        let end = (pos + step).min(stream.len());
        chunks.push((pos, end));
        pos = end;
    }
    // consumer 1: drain after every chunk (read_records / SnapshotReader)
    let mut reader = MessageBufReader::new();
    let mut out: Vec<Vec<u8>> = vec![];
    for (s, e) in &chunks {
        reader.append_next_buf(&stream[*s..*e]);
        while let Some(v) = reader.next_message_vec() {
            out.push(v.to_vec());
        }
    }
    assert_eq!(out.len(), records.len(), "record count differs: lens {:?} chunks {:?} padding {}", lens, &chunks[..chunks.len().min(8)], padding);
    for (a, b) in out.iter().zip(records.iter()) {
        assert!(a == b, "record differs: lens {:?}", lens);
    }
    // consumer 2: drain, then "is_empty means end of stream" (move_to_index_by_count): must not stop before all
    // records were seen, and must stop once a zero length has been buffered
    let mut reader = MessageBufReader::new();
    let mut count = 0usize;
    let mut consumed = 0usize;
    let mut stopped = false;
    for (s, e) in &chunks {
        reader.append_next_buf(&stream[*s..*e]);
        while let Some(v) = reader.next_message_vec() {
            count += 1;
            consumed += v.len();
        }
        if reader.is_empty() {
            stopped = true;
            break;
        }
    }
    assert!(!(stopped && count < records.len()), "stopped early after {} of {} records: lens {:?}", count, records.len(), lens);
    if padding > 0 {
        assert!(stopped, "did not stop at the zero padding: lens {:?} padding {}", lens, padding);
    }
    assert_eq!(consumed, data_len.min(consumed.max(data_len)), "consumed bytes");
    assert_eq!(count, records.len());
});
