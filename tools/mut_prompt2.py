#!/usr/bin/env python3
# usage: mut_prompt2.py <ID> <wave>   -- prompt for a seeding sub-agent; names mechanisms earlier waves already used
import json,sys,glob,os
pid=sys.argv[1]; wave=sys.argv[2]
p=[json.loads(l) for l in open('/verif/properties.jsonl') if json.loads(l)['id']==pid][0]
text=json.dumps({k:p[k] for k in ('id','title','statement','quantifier','why_tests_cant','anchors')},indent=1,ensure_ascii=False)
taken=[]
for d in sorted(glob.glob(f'/verif/seeded/{pid}*')):
    try: taken.append('  - '+json.load(open(d+'/meta.json'))['summary'][:300])
    except Exception: pass
wt=f"/tmp/mut-{pid}-{wave}"; out=f"/tmp/mut-out/{pid}-{wave}"
print(f"""You are helping evaluate how sensitive a verification effort is. You work ONLY inside the scratch git worktree {wt} (a checkout of the Rust project nacos-group/r-nacos: a Rust reimplementation of the Nacos service registry and config center with its own Raft log/snapshot file store). Do not read or write anything under /repo or /verif, and do not commit anything.

Here is a semantic property that the project is supposed to satisfy:

{text}

Your task: make ONE realistic source change in {wt} (the kind of slip or well-meant refactoring a maintainer could really make: an off-by-one, a dropped flush, a swapped condition, a forgotten branch, a wrong field, an "optimisation") that BREAKS this property, while
 (1) the project still compiles (`cd {wt} && CARGO_TARGET_DIR={wt}/target CARGO_BUILD_JOBS=4 CARGO_PROFILE_DEV_DEBUG=0 cargo build --offline`), and
 (2) the existing unit tests still pass exactly as before: `cd {wt} && CARGO_TARGET_DIR={wt}/target CARGO_BUILD_JOBS=4 CARGO_PROFILE_DEV_DEBUG=0 CARGO_PROFILE_TEST_DEBUG=0 cargo test --offline --lib -p rnacos` (on the unchanged tree 36 tests pass and exactly one, raft::filestore::raftlog::tests::write_index_equal_error_when_index_mismatch, fails; that must stay the same), and
 (3) the breakage needs something specific to manifest: a particular interleaving, a crash or fault at a particular point, a multi-step sequence of operations, an unusual input, or two cooperating sites that each look fine alone - NOT something ordinary use would expose at once, and not a panic on start-up.
There is no network: always pass --offline; nothing can be downloaded. Keep the change small (a few lines, one or two files). Do not touch tests. Prefer a change in or near the code the property's anchors point at.

Changes that were already made by others for this property - yours must use a DIFFERENT mechanism and a different code site:
{chr(10).join(taken) if taken else '  (none)'}

Then demonstrate the breakage: write a small demonstration (for instance a Rust integration test file you temporarily add under tests/ and run with `cargo test --offline --test <name>`, or a shell/python script against the built binary {wt}/target/debug/rnacos; a single node is started with env RNACOS_HTTP_PORT / RNACOS_GRPC_PORT / RNACOS_HTTP_CONSOLE_PORT / RNACOS_DATA_DIR, a cluster additionally with RNACOS_RAFT_NODE_ID, RNACOS_RAFT_NODE_ADDR=127.0.0.1:<grpc port>, RNACOS_RAFT_AUTO_INIT=true on node 1 and RNACOS_RAFT_JOIN_ADDR=127.0.0.1:<grpc port of node 1> on the others; loopback networking works; never use pkill -f, kill by pid) that shows the property violated WITH your change and satisfied WITHOUT it, and run it both ways. If a full demonstration is out of reach, give the most concrete step-by-step scenario you can, and say clearly that it was not executed.

Deliver into the directory {out}/ (create it):
 - patch.diff : `git -C {wt} diff -- src` of ONLY the source change (not the demonstration), applicable with `git apply` to the same commit
 - the demonstration file(s) plus demo.md saying how to run them and what output shows the violation; out_with_change.txt / out_without_change.txt with the outputs you observed
 - meta.json : {{"property": "{pid}", "summary": "<what was changed>", "trigger": "<what specific input/history/timing is needed to see it>", "files": ["<changed files>"], "demonstrated": true|false, "tests_still_pass": true|false, "ran": ["<commands you ran>"]}}
When you are done, delete {wt}/target (disk is limited) but leave the worktree with the source change applied. Finish with a short report (what you changed, the trigger, whether the demonstration ran both ways).""")
