#!/usr/bin/env python3
"""ddmin over the 'ops' list of a replay file (parallel). usage: ddmin_replay.py <ID> <replay.json> [needle]"""
import json, subprocess, sys, os, tempfile, concurrent.futures as cf
pid, path = sys.argv[1], sys.argv[2]
needle = sys.argv[3] if len(sys.argv) > 3 else None
doc = json.load(open(path))
ops = doc["case"]["ops"]
tmpd = tempfile.mkdtemp(prefix="ddmin-", dir="/verif/work")
cnt = [0]
def fails(sub):
    cnt[0] += 1
    d = dict(doc); d["case"] = dict(doc["case"]); d["case"]["ops"] = sub
    f = os.path.join(tmpd, "c%d-%d.json" % (os.getpid(), cnt[0]))
    json.dump(d, open(f, "w"))
    env = dict(os.environ, RUST_BACKTRACE="0")
    r = subprocess.run(["/verif/target/debug/rnv", "check", pid, "quick", "--replay", f], capture_output=True, text=True, env=env)
    out = r.stdout + r.stderr
    return r.returncode == 1 and "VIOLATION" in out and (needle is None or needle in out)
def ddmin(ops):
    n = 2
    while len(ops) >= 2:
        chunk = max(1, len(ops) // n)
        subsets = [ops[i:i + chunk] for i in range(0, len(ops), chunk)]
        cands = [("complement", [x for j, s in enumerate(subsets) if j != i for x in s]) for i in range(len(subsets))]
        with cf.ThreadPoolExecutor(max_workers=5) as ex:
            res = list(ex.map(lambda c: fails(c[1]), cands))
        hit = next((cands[i][1] for i, ok in enumerate(res) if ok), None)
        if hit is not None:
            ops = hit; n = max(n - 1, 2)
            print("reduced to", len(ops), flush=True)
        elif n >= len(ops):
            break
        else:
            n = min(len(ops), n * 2)
    return ops
res = ddmin(ops)
doc["case"]["ops"] = res
out = path.replace(".json", "-min.json")
json.dump(doc, open(out, "w"))
print("minimal:", json.dumps(res)); print("written", out)
