#!/bin/bash
# runs every claimed check's quick (or $1) tier once; prints one line per check
tier=${1:-quick}
cd /verif
for id in $(python3 -c "import json;print(' '.join(c['property_id'] for c in json.load(open('MANIFEST.json'))['checks']))"); do
  s=$(date +%s)
  out=$(bin/check $id $tier 2>&1); code=$?
  e=$(( $(date +%s) - s ))
  echo "$id exit=$code ${e}s $(echo "$out" | grep -E '^(OK|VIOLATION)' | tail -1 | cut -c1-160)"
done
