#!/usr/bin/env python3
import json,sys
pid=sys.argv[1]
p=[json.loads(l) for l in open('/verif/properties.jsonl') if json.loads(l)['id']==pid][0]
text=json.dumps({k:p[k] for k in ('id','title','statement','quantifier','why_tests_cant','anchors')},indent=1,ensure_ascii=False)
print(f"""You are helping evaluate how sensitive a verification effort is. You work ONLY inside the scratch git worktree /tmp/mut-{pid} (a checkout of the Rust project nacos-group/r-nacos: a Rust reimplementation of the Nacos service registry and config center with its own Raft log/snapshot file store). Do not read or write anything under /repo or /verif, and do not commit anything.

Here is a semantic property that the project is supposed to satisfy:

{text}

Your task: make ONE realistic source change in /tmp/mut-{pid} (the kind of slip or well-meant refactoring a maintainer could really make: an off-by-one, a dropped flush, a swapped condition, a forgotten branch, a wrong field, an "optimisation") that BREAKS this property, while
 (1) the project still compiles (`cd /tmp/mut-{pid} && CARGO_TARGET_DIR=/tmp/mut-{pid}/target CARGO_BUILD_JOBS=6 cargo build --offline`), and
 (2) the existing unit tests still pass exactly as before: `cd /tmp/mut-{pid} && CARGO_TARGET_DIR=/tmp/mut-{pid}/target CARGO_BUILD_JOBS=6 cargo test --offline --lib -p rnacos` (on the unchanged tree 36 tests pass and exactly one, raft::filestore::raftlog::tests::write_index_equal_error_when_index_mismatch, fails; that must stay the same), and
 (3) the breakage needs something specific to manifest (a particular input shape, size, ordering, crash point, timing or history), i.e. it is not visible on every trivial use, and is not a panic on start-up.
There is no network: always pass --offline; nothing can be downloaded. Keep the change small (a few lines, one or two files). Do not touch tests. Prefer a change in the code the property's anchors point at.

Then demonstrate the breakage: write a small demonstration (for instance a Rust test file you temporarily add to the crate and run with `cargo test --offline --lib -p rnacos <name>`, or a shell/python script against the built binary /tmp/mut-{pid}/target/debug/rnacos) that shows the property violated WITH your change and satisfied WITHOUT it, and run it both ways. If a full demonstration is out of reach (for example it needs a multi-node cluster), give the most concrete step-by-step scenario you can, and say clearly that it was not executed.

Deliver into the directory /tmp/mut-out/{pid}/ (create it):
 - patch.diff : `git -C /tmp/mut-{pid} diff` of ONLY the source change (not the demonstration), applicable with `git apply` to the same commit
 - the demonstration file(s) plus demo.md saying how to run them and what output shows the violation
 - meta.json : {{"property": "{pid}", "summary": "<one sentence: what was changed>", "trigger": "<what specific input/history/timing is needed to see it>", "files": ["<changed files>"], "demonstrated": true|false, "tests_still_pass": true|false}}
Finish with a short report (what you changed, the trigger, whether the demonstration ran). Do not delete the worktree; leave the source change applied in it.""")
