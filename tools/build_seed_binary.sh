#!/bin/bash
# usage: tools/build_seed_binary.sh <worktree> <with|without> <out file> [patch]   (scratch worktree, never /repo)
wt=$1; mode=$2; out=$3; patch=$4
export CARGO_NET_OFFLINE=true CARGO_TARGET_DIR=/tmp/seed-target CARGO_PROFILE_DEV_DEBUG=0 CARGO_PROFILE_TEST_DEBUG=0
cd $wt || exit 3
git checkout -q -- src
if [ "$mode" = with ]; then git apply $patch || exit 3; fi
cargo build --offline --bin rnacos 2>&1 | tail -1
mkdir -p $(dirname $out); cp /tmp/seed-target/debug/rnacos $out
git checkout -q -- src
