#!/bin/bash
# usage: tools/confirm_itest.sh <worktree> <seed dir> <demo.rs>
# Runs a seeded change's integration-test demonstration without and with the change in its scratch worktree
# (never /repo). Shared target dir /tmp/seed-target (deleted by the caller when all seeds are judged).
wt=$1; seed=$2; demo=$3; name=$(basename $demo .rs)
export CARGO_NET_OFFLINE=true CARGO_TARGET_DIR=/tmp/seed-target CARGO_PROFILE_DEV_DEBUG=0 CARGO_PROFILE_TEST_DEBUG=0
cd $wt || exit 3
git checkout -q -- src; mkdir -p tests; cp $seed/$demo tests/$name.rs
echo "== $(basename $seed) without"; cargo test --offline --test $name 2>&1 | grep -E "^test |test result|panicked|^error" | head -12
git apply $seed/patch.diff || exit 3
echo "== $(basename $seed) with"; cargo test --offline --test $name 2>&1 | grep -E "^test |test result|panicked|^error" | head -12
git checkout -q -- src; rm -rf tests
