#!/bin/bash
# usage: tools/confirm_seed.sh <worktree> <patch.diff>
# In a scratch worktree of /repo (never /repo itself): applies the change, builds and runs the repository's test
# suite with it, prints the pass/fail summary, undoes the change. Shared target dir /tmp/seed-target (deleted by caller).
wt="$1"; patch="$2"
export CARGO_NET_OFFLINE=true CARGO_TARGET_DIR=/tmp/seed-target CARGO_PROFILE_DEV_DEBUG=0 CARGO_PROFILE_TEST_DEBUG=0
cd "$wt" || exit 3
git checkout -q -- src 2>/dev/null
git apply --check "$patch" || { echo "CONFIRM $wt: patch does not apply"; exit 3; }
git apply "$patch"
out=$(cargo test --offline --no-fail-fast 2>&1)
echo "$out" | grep -E "^test result|^error(\[|:)|FAILED|failed" | sort | uniq -c | head -20
git checkout -q -- src
