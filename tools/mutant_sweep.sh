#!/bin/bash
# runs every seeded change (seeded/<ID>/patch.diff) against the quick tier of its check; writes seeded/RESULTS.md
cd /verif || exit 3
out=seeded/RESULTS.md
{
echo "# Seeded-change sweep"
echo
echo "Each line: the change of seeded/<ID>/ applied to /repo (git apply), \`bin/check <ID> quick\` run with RNV_OUT_ROOT=/verif/work/mutant-out, change undone (git checkout)."
echo "exit 1 + VIOLATION = caught. Date: $(date -u +%F' '%T) UTC, /repo HEAD $(git -C /repo log --format=%h -1), /verif HEAD $(git log --format=%h -1)."
echo
echo '```'
} > $out
for id in C01 C02 C03 C04 C05 C06 C07 C08 C09 C10 C11 C12 C13 C14 C15 C16 C17 C18 C19 C20; do
  tools/mutant_run.sh /verif/seeded/$id/patch.diff $id quick 2>&1 | cut -c1-420 >> $out
done
echo '```' >> $out
