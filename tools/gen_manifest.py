#!/usr/bin/env python3
"""Regenerates /verif/MANIFEST.json from the table below (keeps it schema-valid at all times)."""
import json, subprocess

PROPS = [json.loads(l) for l in open('/verif/properties.jsonl')]

def chk(pid, engine, cat, text, note, tech, thorough=True):
    c = {"property_id": pid, "quick_cmd": f"bin/check {pid} quick", "evidence_file": f"/verif/evidence/{pid}.json",
         "replay_cmd_template": f"bin/check {pid} quick --replay {{path}}", "engine": engine,
         "level_claimed": {"category": cat, "text": text, "design_ref": f"DESIGN.md section 3, {pid}"},
         "level_note": note, "technique": tech}
    if thorough:
        c["thorough_cmd"] = f"bin/check {pid} thorough"
    return c

CHECKS = [
 chk("C20", "E1 + E4 (libFuzzer target codec_chunking)", "exploration",
  "Generated record streams (boundary-weighted lengths, zero padding) under two generated chunk partitions plus the store's own 1024-byte reads must decode to exactly the generating list through the consumer loops the store uses, through FileMessageReader, and every generated u64 must round-trip through varint writer/reader/size. Random search with shrinking, followed by a coverage-guided libFuzzer campaign (fixed number of runs, committed seed corpus) whose target includes /repo's protobuf_utils.rs by path and carries the same round-trip oracle; no absence claim.",
  "Record bodies non-empty (no real writer emits an empty message); streams <= 256 KB; expected framing built with the repo's own write_varint64, which is itself checked against reader and size function.",
  "property-based testing (proptest) + coverage-guided fuzzing (libFuzzer through cargo-fuzz): round-trip + metamorphic (two partitions) oracle"),
 chk("C02", "E1 (L1 LogInnerManager + L2 FileStore actor chain)", "exploration",
  "Model-based: generated operation histories (append, batch replicate, delete-from + re-append, bare truncation, window reads, split-off, compaction pointers, snapshot-install pointers inside/beyond the log, flush timer, reopen) with boundary-aimed payload sizes are run against LogInnerManager and against the real FileStore actor chain; a Vec reference model is compared after every operation, after every reopen and after a final reopen + append. Random search with shrinking; holds on everything generated, no absence claim.",
  "Caller discipline of async-raft (contiguous appends, truncation above the snapshot pointer); entries at or below the newest requested pointer may be compacted at the store's discretion; real file rollover (173k+ appends) only in the thorough tier.",
  "property-based testing (proptest) with a reference model (stateful, vec(op) + interpreter)"),
 chk("C03", "E1 (L1 LogInnerManager + L2 FileStore actor chain)", "exploration",
  "Same drivers and model as C02 with a truncation-heavy generator: cut points any / around and across 128-record index boundaries / two boundaries back / last N / end, re-append shorter, equal and longer than the removed entries (single and batch), with pointer files present (L2), then optional reopen. After every step [..,k) is unchanged, [k,..) unreadable, the append at k accepted, and the same again after reopen.",
  "As C02. Closed-file truncation after a real rollover only in the thorough tier.",
  "property-based testing (proptest) with a reference model (stateful, vec(op) + interpreter)"),
 chk("C05", "E1 store mode (FileStore actor chain, fresh actix System per phase)", "exploration",
  "Model-based: generated interleavings of every writer of the shared index file (save_hard_state, SaveMember, AddNodeAddr with 5..200-char addresses so records shrink after growing, log catalogue via appends, snapshot catalogue via compaction pointer, snapshot install = SaveSnapshots + SaveMember + SaveLogs, last-applied header) with reopens; get_initial_state / get_membership_config / get_target_addr must equal the last acknowledged values after every op and after every reopen, and the observed term never decreases.",
  "Stop points are after a write barrier (acknowledged writes have reached the OS). RaftIndexManager acknowledges before the write is issued (DESIGN F14): that window is timing dependent and not asserted. Histories start with a term >= 1 save and members_after_consensus is only ever None, as every real caller does.",
  "property-based testing (proptest) with a last-acknowledged-value model (stateful, vec(op) + interpreter)"),
 chk("C04", "E5 LD_PRELOAD journal + store-mode recovery; node tier: E2 full node under the journal", "fault_enumeration",
  "Generated store-mode histories are executed by a child under an LD_PRELOAD journal of file mutations (open-create, write, pwrite, writev, ftruncate, rename, unlink, with per-descriptor offsets); for EVERY prefix of each journal the directory image is materialised and reopened with the real recovery code, and the clauses of the property are judged against what was submitted / durable before that prefix: recovery succeeds, log in order and contiguous above the newest pointer, all durable entries present, only submitted entries exposed, hard state / membership / addresses / last-applied equal to a written value, last_applied not past log + snapshot. A second tier runs generated histories (client requests of all kinds + real compactions) in a FULL node under the same journal; for every prefix a fresh full node is started on the crash image and must serve the state after j steps for some durable <= j <= submitted. Complete over crash prefixes per history (exhaustive per history), sampled over histories.",
  "Crash model as stated by the property (process death, atomic ordered writes, OS survives); one operation in flight at a time; snapshot install journals of a follower are enumerated in store mode only. Crash points during the very first bootstrap of a node are a recorded open finding.",
  "fault injection by crash-point enumeration over proptest-generated histories (LD_PRELOAD mutation journal, every prefix recovered and judged)"),
 chk("C07", "E2 scripted full node in child processes", "exploration",
  "Three-way differential over generated committed sequences (all ClientRequest kinds, small overlapping key universes): node A commits them through a real single-node Raft (leader apply path); A's exact log entries are fed to node B with replicate_to_log + replicate_to_state_machine in generated batch splits (follower path); B restarted and A restarted give the start-up replay path. The four state dumps (config GET + history pages, listings, user-created namespaces, user rows, MCP servers and tool specs, persistent instances, membership/addresses, sequence counters) must be equal.",
  "Cache entries and weak (derived) namespaces are not compared (cross-actor asynchronous derivation, timing dependent). Generated requests have the shapes real callers produce (namespace Update only on user-created namespaces, servers reference existing tool specs, Members only [1]).",
  "property-based testing (proptest): differential oracle across three apply paths in real node processes"),
 chk("C01", "E2 scripted full node in child processes", "exploration",
  "Generated histories of ClientRequests on a real single-node Raft node with awaited / concurrent / Raft-core-triggered / interrupted compactions and restarts (real process boundaries). Oracle 1: dump(before stop) == dump(after restart) at every restart. Oracle 2 (metamorphic): the same requests on a fresh node without any restart or compaction end in the same served state. A failure that needs compaction concurrent with writes (its awaited variant passes) is the recorded known finding; anything else is a violation.",
  "Stop points after the write barrier. With concurrent compaction sequence counters may only move forward. Compactions never overlap (as in the Raft core).",
  "property-based testing (proptest): restart differential + metamorphic reference run in real node processes"),
 chk("C14", "E1 real InnerNodeManage actors, genuine 15 s liveness timer", "fault_enumeration",
  "Every cluster view n=1..5 (thorough 1..7) x every non-empty alive set x every local id is built from real InnerNodeManage actors whose own liveness rule marks starved peers invalid; for thousands of generated service keys exactly one live node owns the key (QueryOwnerRange), every live node routes it (NodeManage::route_addr) to that same node, and liveness follows the 15 s rule. A second phase revives the dead nodes; a timer-free tier sweeps membership change sequences. Configurations are enumerated exhaustively, keys are generated.",
  "Owner = QueryOwnerRange[0] of each node; NamingActor's own copy of the range is not observed (DESIGN F8). Transient windows shorter than one 3 s tick are not decided.",
  "exhaustive configuration enumeration + property-based key generation (proptest) against an exactly-one-owner / routing-agrees oracle"),
 chk("C19", "E2 scripted full node in child processes", "exploration",
  "Generated histories of next-id draws (single and long runs crossing the 100-id cache ranges), direct ranges and config publishes (history ids) on a real single-node Raft node, with awaited/concurrent compactions, clean restarts and restarts whose last-applied header was rewound (replayed log suffix). A monitor over every id ever issued: per sequence no id twice, next ids strictly increasing, range starts strictly increasing; config history ids pairwise distinct and newest-first per key. The stale-header restart shape is a recorded known finding and is excluded by construction while it is open.",
  "Single-node tier only (several nodes drawing concurrently / leader changes are not exercised). Monotonicity is judged per stream (next-id stream, range stream).",
  "property-based testing (proptest): history invariant monitor over all issued ids in real node processes"),
 chk("C08", "E3 real processes on loopback (leader + follower)", "exploration",
  "Generated schedules on real rnacos processes: leader with snapshot threshold 10/20/35/60, generated write histories (config publish/remove over 24 keys, namespace add/update/remove), a follower that joins before the writes (optionally killed during them) or only afterwards; after the quiescence rule the follower's served data (every key, user-created namespaces, raft members) must equal the leader's, and again after the follower is restarted. A membership difference before the follower's first restart after a really installed snapshot, and a divergence that disappears when the schedule is re-run with compaction kept out of the way of applies (root cause shared with C01), are the recorded open findings; everything else is a violation.",
  "Message schedules between processes are sampled, not controlled. The harness keeps a trickle of sentinel writes going while it waits (an idle leader does not catch a lagging node up) and repeats a lost join request once by restarting the joiner.",
  "property-based testing (proptest-generated schedules) with a leader/follower differential oracle on real processes"),
 chk("C09", "E1 bare ConfigActor", "exploration",
  "Model-based: generated histories of the messages the Raft apply paths and the routed-write flow send to a ConfigActor (ConfigAdd incl. routed SetTmpValue + later ConfigAdd, ConfigRemove, SetFullValue imports with 1..100 history items, bursts past the 100-entry bound) over 36 overlapping keys with arbitrary UTF-8 content up to the size limit; after every message GET, a full page walk of the key's history and a full page walk of a generated listing (tenant, exact/fuzzy filters, page sizes) are compared with a reference model (independent md5).",
  "tenant is always Some (no caller builds an all-tenant query), offsets are page aligned, keys valid per param_utils, imports shaped as the real producers build them.",
  "property-based testing (proptest) with a reference model (stateful, vec(op) + interpreter)"),
 chk("C11", "E1 bare NamingActor", "exploration",
  "Generated histories of every message the HTTP, gRPC, cluster-sync and Raft callers send to a NamingActor (all InstanceUpdateTag combinations, batch sync, client removal, time-out peeks, sniffing results, service update/removal) over 8 services x 4 addresses x 5 connections; after every step, from public queries only: counters equal the listed instances, every service is indexed exactly once with matching totals, per-client records exist and belong to that client, the snapshot records equal the non-ephemeral instances, RemoveService succeeds iff the service is empty. A timed sub-tier crosses the real health / removal time-outs.",
  "Bare actor without delay-notify / cluster node manage: subscriber and cluster fan-out side effects are not observed.",
  "property-based testing (proptest): invariants over public queries after every step of a generated history"),
 chk("C12", "E1 bare NamingActor", "exploration",
  "Same generator with ownership-heavy weights against a reference model (service -> address -> attributes + owner) built from the statement and the real callers: new instances carry the registered attributes, an HTTP overwrite of a connection-owned ephemeral address keeps the owner, deregistration with a foreign client id leaves an ephemeral instance alone, RemoveClient(c) removes exactly c's ephemeral instances and no persistent one, healthy-only queries follow the protection threshold (f32 arithmetic reproduced). Every query form is compared after every step.",
  "Metadata precedence and cluster-name filters are not compared.",
  "property-based testing (proptest) with a reference model (stateful, vec(op) + interpreter)"),
 chk("C18", "E3 real server + console HTTP", "exploration",
  "Differential against the administrator on a real server: fixture data in a 6-namespace universe, restricted users (whitelist/blacklist groups stored at creation or by update), a catalogue of 66 console data endpoints of both API versions cross-checked against the routes discovered from console_config (an unclassified data route is exit 2), namespace spellings (omitted, empty, 'public', explicit), request variants. Reads must show no item of a forbidden namespace and only items the admin sees; writes naming a forbidden namespace must leave the admin's snapshot unchanged, permitted ones must behave as the admin's. A deterministic sweep of all endpoints x targets x spellings plus thousands of generated cases. 32 endpoint shapes found this way were repaired in /repo (known_findings.json, status fixed); one (MCP server import moving a server out of a forbidden namespace) is recorded open, keyed on endpoint + operation; anything else is a violation.",
  "One server per worker is reused and the fixture restored after every write case. Disabled groups and stale sessions after a privilege change are not decided.",
  "property-based testing (proptest) + exhaustive endpoint sweep with an admin-differential oracle on a real server"),
 chk("C06", "E3 real 3-node clusters on loopback with nemesis", "exploration",
  "Generated schedules on real 3-node clusters: one sequential writer per key issuing publish seq=1,2,.. (removes on two of four keys) over HTTP to generated nodes, interleaved with kill -9 / SIGSTOP of one node or of the leader, heal, pauses and - in template schedules - the deposed-leader sequence. After healing and the quiescence rule (same leader everywhere, last_applied == leader's last log index, with a trickle of sentinel writes): all nodes serve the same content per key, that content is the effect of the last acknowledged op or of a later attempt, and every acknowledged publish of a never-removed key is in every node's change history.",
  "Message schedules between processes are sampled by real execution, not controlled; at most one node impaired at a time outside the template; HTTP writers only. Nodes are brought up one after the other (concurrent joins can leave a joiner NonVoter).",
  "property-based testing (proptest-generated fault schedules) with history invariants (agreement, no acknowledged loss, ok => committed) on real clusters"),
 chk("C10", "E1 real ConfigActor + BiStreamManage wired as the starter does", "exploration",
  "Generated interleavings of long-poll registrations (1-4 keys, held md5 current/stale/empty, deadlines expired / short / far), gRPC-style connections (real BiStreamConn actors over an in-memory tonic stream), subscribe / unsubscribe / disconnect, publishes with different and identical content, routed temporary values, removes and timeout waits. Completeness oracle: stale-at-registration listeners are answered at once naming every stale key, a later change answers every pending listener of that key naming it, a pending long-poll is answered by its deadline + tick + slack (real clock only here), Subscribe reports stale items, every connected subscriber finds a ConfigChangeNotifyRequest in its response channel after each change.",
  "The actor serialises messages, so the sequence order is the interleaving; HTTP/2 delivery and SDK reaction are not exercised. An applied publish that repeats the last applied content obliges no notification.",
  "property-based testing (proptest): completeness model over generated listen/publish/remove/disconnect interleavings"),
 chk("C13", "E3 real single-node server, real clock", "exploration",
  "Generated batches of 120 concurrent instance timelines (HTTP-ephemeral / persistent, register offset, heartbeat period 0.5 s .. 5.2 s or none, optional stop and re-registration) in real time against a real server with health time-out 4 s, instance time-out 5 s, 2 s tick; all instance lists are sampled every ~400 ms for 28 s and every (timeline, sample) is judged with one-sided windows derived from the measured send times: present and healthy while heartbeats arrive within the time-out, unhealthy after health time-out + tick + slack, gone after instance time-out + 2 ticks + slack, persistent instances never expired.",
  "Real clock with one-sided windows (scheduling delay can only make the check more lenient). gRPC-owned instances are covered by C11/C12; take-over after a node failure is exercised by C15's kill schedules.",
  "property-based testing (proptest-generated timelines) with a timing-window oracle on a real server"),
 chk("C15", "E3 real 3-node clusters on loopback", "exploration",
  "Generated schedules (10..36 ops) on real 3-node clusters: HTTP register (weights 2..4) / deregister addressed to generated nodes over 3 services x 6 addresses, gRPC register / deregister of 6 further addresses through up to three held bi-stream connections attached to generated nodes, connection close, pauses, back-to-back update+deregister / deregister+register of one address, and (second class) kill -9 / restart of one node, with HTTP heartbeats kept going for the instances the model holds. Oracle: within 100 s after the last op all live nodes return the same set (address, healthy, enabled, weight) for every service, and that set is exactly the surviving registrations: instances of connections attached to a killed node, of closed connections and deregistered ones are gone, everything else present and healthy (weights are compared with the model only in schedules without a kill). Saved counterexamples are re-run first.",
  "Message schedules between the nodes are sampled by real execution, not controlled ('delayed batch overtaking a remove' is reachable only by luck). HTTP deregistration is only issued for addresses that are not connection-owned; each gRPC address is written by one connection at a time. One node down at a time.",
  "property-based testing (proptest-generated client/fault schedules) with a reference model + cross-node agreement oracle on real clusters"),
 chk("C16", "E1 route discovery + E3 real server (HTTP raw client, tonic gRPC client)", "exploration",
  "Routes are discovered at run time from the real app_config ResourceMap (self-tested on sentinel routes). Complete matrix: in-scope routes x 6 methods x token carriers x token values (absent, empty, garbage, never issued, prefix of a valid one, expired, valid) on a real server with auth on; every gRPC request type found in the handler module plus near misses with/without session and cluster token; plus tens of thousands of generated path spellings (trailing/doubled slash, case, percent-encoding incl. '/', ';param', '/./', '/zz/..', static suffixes). Oracle: no valid token and a router path under /nacos/ or /rnacos/v1/ (minus the statement's exemptions) => the auth refusal, or no handler exists for the same request with a valid token; writes leave data unchanged; a valid token is never refused.",
  "Exemptions read literally from the statement. Valid+invalid tokens in two carriers of one request are not generated. With no cluster token configured cluster requests are not asserted (the statement conditions on 'when one is configured').",
  "exhaustive request matrix + property-based path-spelling generation (proptest) with a valid-token differential oracle on a real server"),
 chk("C17", "E1 exhaustive role-table sweep + E3 real console", "fault_enumeration",
  "(a) Exhaustive: every discovered console route instance x 7 methods x 337 role vectors through UserRole::match_url_by_roles: equals a literal reading of the role tables, visitor <= developer <= manager, visitor has no changing grant outside a justified list, developer is refused user management and transfer, multi-role = union, unknown roles get nothing, unlisted routes are granted to nobody. (b) Black box on the console port of a real server: users of each role created through the admin API, sessions none / empty / garbage / never issued / OpenAPI token / expired / valid over cookie and Token header, every route x method plus generated spellings: no valid session => NO_LOGIN (or no handler), a handler runs only if the tables grant the router path, granted canonical requests are not refused.",
  "Console requests carry no parameters (an extractor 400 counts as 'handler ran'); pages and static assets are not judged in (b).",
  "exhaustive enumeration of the role table + property-based spelling/session generation (proptest) against the role lattice on a real console"),
]

ENGINES = [
 {"name": "E1", "path": "harness/src", "serves_properties": ["C20", "C02", "C03", "C05", "C09", "C10", "C11", "C12", "C14", "C16", "C17"],
  "kind_free_text": "in-process proptest model-based / round-trip checks linked against /repo as a library (fresh actix System per phase for the file-store actor chain)"},
 {"name": "E4", "path": "fuzzproj/fuzz/fuzz_targets/codec_chunking.rs", "serves_properties": ["C20"],
  "kind_free_text": "cargo-fuzz / libFuzzer target (nightly, ASan) that includes /repo/src/common/protobuf_utils.rs by #[path]; bytes decoded with arbitrary::Unstructured into record lengths, padding and a chunk partition; oracle inside the target; seed corpus fuzzproj/fuzz/seeds"},
 {"name": "E5", "path": "interpose/journal.c + harness/src/c04.rs", "serves_properties": ["C04"],
  "kind_free_text": "LD_PRELOAD journal of file mutations in a recorder child; parent materialises every journal prefix and runs the real recovery code on it"},
 {"name": "E2", "path": "harness/src/node.rs", "serves_properties": ["C01", "C07", "C19"],
  "kind_free_text": "scripted full node (starter::config_factory + build_share_data) in a child process per phase: leader path through the real Raft, follower path through RaftStorage calls, restart = new process"},
 {"name": "E3", "path": "harness/src/cluster.rs, harness/src/c18/srv.rs", "serves_properties": ["C06", "C08", "C13", "C15", "C16", "C17", "C18"],
  "kind_free_text": "real rnacos-real processes (the shipped main.rs built from /repo's working tree) on loopback with HTTP clients; nemesis by pid (kill -9, restart)"},
]

def main():
    claimed = {c["property_id"] for c in CHECKS}
    na = [{"property_id": p["id"], "reason": "no check registered (see DESIGN.md)"}
          for p in PROPS if p["id"] not in claimed]
    try:
        commits = subprocess.check_output(["git", "-C", "/repo", "log", "--format=%h %s", "41a5f6e..HEAD"], text=True).strip().splitlines()
    except Exception:
        commits = []
    hook_commits = [c.split()[0] for c in commits if c.split(' ', 1)[1].startswith('verif-hook')]
    m = {"version": 1,
         "setup_cmd": "cd /verif/harness && CARGO_NET_OFFLINE=true cargo build --offline && clang -shared -fPIC -O2 -o /verif/target/journal.so /verif/interpose/journal.c -ldl -lpthread",
         "hooks": {"guard": "nacos_group_r_nacos_verif",
                   "enable": "no hooks in use: checks reach the code through pub API, real sockets and real files of the unmodified build",
                   "baseline_off_cmd": "cd /repo && (cargo nextest run --workspace --no-fail-fast --test-threads 8 --offline || cargo test --workspace --no-fail-fast --offline)",
                   "source_commits": hook_commits, "add_only": True},
         "engines": ENGINES,
         "checks": CHECKS,
         "notes": "bin/check <ID> <tier> rebuilds harness + /repo working tree (cargo path dependency), then runs the generated search; exit 0 held / 1 VIOLATION / 2 infrastructure or inconclusive (hang watchdog). Genuine defects repaired in /repo are listed in known_findings.json (status fixed).",
         "not_applicable": na}
    json.dump(m, open('/verif/MANIFEST.json', 'w'), indent=1)
    print("claimed:", sorted(claimed))

main()
