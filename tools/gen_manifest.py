#!/usr/bin/env python3
"""Regenerates /verif/MANIFEST.json from the table below (keeps it schema-valid at all times)."""
import json, subprocess

PROPS = [json.loads(l) for l in open('/verif/properties.jsonl')]

def chk(pid, engine, cat, text, note, tech, thorough=True):
    c = {"property_id": pid, "quick_cmd": f"bin/check {pid} quick", "evidence_file": f"/verif/evidence/{pid}.json",
         "replay_cmd_template": f"bin/check {pid} quick --replay {{path}}", "engine": engine,
         "level_claimed": {"category": cat, "text": text, "design_ref": f"DESIGN.md section 3, {pid}"},
         "level_note": note, "technique": tech}
    if thorough:
        c["thorough_cmd"] = f"bin/check {pid} thorough"
    return c

CHECKS = [
 chk("C20", "E1", "exploration",
  "Generated record streams (boundary-weighted lengths, zero padding) under two generated chunk partitions plus the store's own 1024-byte reads must decode to exactly the generating list through the consumer loops the store uses, through FileMessageReader, and every generated u64 must round-trip through varint writer/reader/size. Random search with shrinking; no absence claim.",
  "Record bodies non-empty (no real writer emits an empty message); streams <= 256 KB; expected framing built with the repo's own write_varint64, which is itself checked against reader and size function.",
  "property-based testing (proptest): round-trip + metamorphic (two partitions) oracle"),
 chk("C02", "E1 (L1 LogInnerManager + L2 FileStore actor chain)", "exploration",
  "Model-based: generated operation histories (append, batch replicate, delete-from + re-append, bare truncation, window reads, split-off, compaction pointers, snapshot-install pointers inside/beyond the log, flush timer, reopen) with boundary-aimed payload sizes are run against LogInnerManager and against the real FileStore actor chain; a Vec reference model is compared after every operation, after every reopen and after a final reopen + append. Random search with shrinking; holds on everything generated, no absence claim.",
  "Caller discipline of async-raft (contiguous appends, truncation above the snapshot pointer); entries at or below the newest requested pointer may be compacted at the store's discretion; real file rollover (173k+ appends) only in the thorough tier.",
  "property-based testing (proptest) with a reference model (stateful, vec(op) + interpreter)"),
 chk("C03", "E1 (L1 LogInnerManager + L2 FileStore actor chain)", "exploration",
  "Same drivers and model as C02 with a truncation-heavy generator: cut points any / around and across 128-record index boundaries / two boundaries back / last N / end, re-append shorter, equal and longer than the removed entries (single and batch), with pointer files present (L2), then optional reopen. After every step [..,k) is unchanged, [k,..) unreadable, the append at k accepted, and the same again after reopen.",
  "As C02. Closed-file truncation after a real rollover only in the thorough tier.",
  "property-based testing (proptest) with a reference model (stateful, vec(op) + interpreter)"),
 chk("C05", "E1 store mode (FileStore actor chain, fresh actix System per phase)", "exploration",
  "Model-based: generated interleavings of every writer of the shared index file (save_hard_state, SaveMember, AddNodeAddr with 5..200-char addresses so records shrink after growing, log catalogue via appends, snapshot catalogue via compaction pointer, snapshot install = SaveSnapshots + SaveMember + SaveLogs, last-applied header) with reopens; get_initial_state / get_membership_config / get_target_addr must equal the last acknowledged values after every op and after every reopen, and the observed term never decreases.",
  "Stop points are after a write barrier (acknowledged writes have reached the OS). RaftIndexManager acknowledges before the write is issued (DESIGN F14): that window is timing dependent and not asserted. Histories start with a term >= 1 save and members_after_consensus is only ever None, as every real caller does.",
  "property-based testing (proptest) with a last-acknowledged-value model (stateful, vec(op) + interpreter)"),
 chk("C04", "E5 LD_PRELOAD journal + store-mode recovery", "fault_enumeration",
  "Generated store-mode histories are executed by a child under an LD_PRELOAD journal of file mutations (open-create, write, pwrite, writev, ftruncate, rename, unlink, with per-descriptor offsets); for EVERY prefix of each journal the directory image is materialised and reopened with the real recovery code, and the clauses of the property are judged against what was submitted / durable before that prefix: recovery succeeds, log in order and contiguous above the newest pointer, all durable entries present, only submitted entries exposed, hard state / membership / addresses / last-applied equal to a written value, last_applied not past log + snapshot. Complete over crash prefixes per history (exhaustive per history), sampled over histories.",
  "Crash model as stated by the property (process death, atomic ordered writes, OS survives); one operation in flight at a time; store mode mirrors the catalogue messages of compaction, the full-node compaction/install journals are not enumerated here.",
  "fault injection by crash-point enumeration over proptest-generated histories (LD_PRELOAD mutation journal, every prefix recovered and judged)"),
 chk("C07", "E2 scripted full node in child processes", "exploration",
  "Three-way differential over generated committed sequences (all ClientRequest kinds, small overlapping key universes): node A commits them through a real single-node Raft (leader apply path); A's exact log entries are fed to node B with replicate_to_log + replicate_to_state_machine in generated batch splits (follower path); B restarted and A restarted give the start-up replay path. The four state dumps (config GET + history pages, listings, user-created namespaces, user rows, MCP servers and tool specs, persistent instances, membership/addresses, sequence counters) must be equal.",
  "Cache entries and weak (derived) namespaces are not compared (cross-actor asynchronous derivation, timing dependent). Generated requests have the shapes real callers produce (namespace Update only on user-created namespaces, servers reference existing tool specs, Members only [1]).",
  "property-based testing (proptest): differential oracle across three apply paths in real node processes"),
 chk("C01", "E2 scripted full node in child processes", "exploration",
  "Generated histories of ClientRequests on a real single-node Raft node with awaited / concurrent / Raft-core-triggered / interrupted compactions and restarts (real process boundaries). Oracle 1: dump(before stop) == dump(after restart) at every restart. Oracle 2 (metamorphic): the same requests on a fresh node without any restart or compaction end in the same served state. A failure that needs compaction concurrent with writes (its awaited variant passes) is the recorded known finding; anything else is a violation.",
  "Stop points after the write barrier. With concurrent compaction sequence counters may only move forward. Compactions never overlap (as in the Raft core).",
  "property-based testing (proptest): restart differential + metamorphic reference run in real node processes"),
 chk("C14", "E1 real InnerNodeManage actors, genuine 15 s liveness timer", "fault_enumeration",
  "Every cluster view n=1..5 (thorough 1..7) x every non-empty alive set x every local id is built from real InnerNodeManage actors whose own liveness rule marks starved peers invalid; for thousands of generated service keys exactly one live node owns the key (QueryOwnerRange), every live node routes it (NodeManage::route_addr) to that same node, and liveness follows the 15 s rule. A second phase revives the dead nodes; a timer-free tier sweeps membership change sequences. Configurations are enumerated exhaustively, keys are generated.",
  "Owner = QueryOwnerRange[0] of each node; NamingActor's own copy of the range is not observed (DESIGN F8). Transient windows shorter than one 3 s tick are not decided.",
  "exhaustive configuration enumeration + property-based key generation (proptest) against an exactly-one-owner / routing-agrees oracle"),
 chk("C19", "E2 scripted full node in child processes", "exploration",
  "Generated histories of next-id draws (single and long runs crossing the 100-id cache ranges), direct ranges and config publishes (history ids) on a real single-node Raft node, with awaited/concurrent compactions, clean restarts and restarts whose last-applied header was rewound (replayed log suffix). A monitor over every id ever issued: per sequence no id twice, next ids strictly increasing, range starts strictly increasing; config history ids pairwise distinct and newest-first per key. The stale-header restart shape is a recorded known finding and is excluded by construction while it is open.",
  "Single-node tier only (several nodes drawing concurrently / leader changes are not exercised). Monotonicity is judged per stream (next-id stream, range stream).",
  "property-based testing (proptest): history invariant monitor over all issued ids in real node processes"),
]

ENGINES = [
 {"name": "E1", "path": "harness/src", "serves_properties": ["C20", "C02", "C03", "C05", "C14"],
  "kind_free_text": "in-process proptest model-based / round-trip checks linked against /repo as a library (fresh actix System per phase for the file-store actor chain)"},
 {"name": "E5", "path": "interpose/journal.c + harness/src/c04.rs", "serves_properties": ["C04"],
  "kind_free_text": "LD_PRELOAD journal of file mutations in a recorder child; parent materialises every journal prefix and runs the real recovery code on it"},
 {"name": "E2", "path": "harness/src/node.rs", "serves_properties": ["C01", "C07", "C19"],
  "kind_free_text": "scripted full node (starter::config_factory + build_share_data) in a child process per phase: leader path through the real Raft, follower path through RaftStorage calls, restart = new process"},
]

def main():
    claimed = {c["property_id"] for c in CHECKS}
    na = [{"property_id": p["id"], "reason": "check not built yet (work in progress; see DESIGN.md section 6 build order)"}
          for p in PROPS if p["id"] not in claimed]
    try:
        commits = subprocess.check_output(["git", "-C", "/repo", "log", "--format=%h %s", "41a5f6e..HEAD"], text=True).strip().splitlines()
    except Exception:
        commits = []
    hook_commits = [c.split()[0] for c in commits if c.split(' ', 1)[1].startswith('verif-hook')]
    m = {"version": 1,
         "setup_cmd": "cd /verif/harness && CARGO_NET_OFFLINE=true cargo build --offline && clang -shared -fPIC -O2 -o /verif/target/journal.so /verif/interpose/journal.c -ldl -lpthread",
         "hooks": {"guard": "nacos_group_r_nacos_verif",
                   "enable": "no hooks in use: checks reach the code through pub API, real sockets and real files of the unmodified build",
                   "baseline_off_cmd": "cd /repo && (cargo nextest run --workspace --no-fail-fast --test-threads 8 --offline || cargo test --workspace --no-fail-fast --offline)",
                   "source_commits": hook_commits, "add_only": True},
         "engines": ENGINES,
         "checks": CHECKS,
         "notes": "bin/check <ID> <tier> rebuilds harness + /repo working tree (cargo path dependency), then runs the generated search; exit 0 held / 1 VIOLATION / 2 infrastructure or inconclusive (hang watchdog). Genuine defects repaired in /repo are listed in known_findings.json (status fixed).",
         "not_applicable": na}
    json.dump(m, open('/verif/MANIFEST.json', 'w'), indent=1)
    print("claimed:", sorted(claimed))

main()
