#!/bin/bash
# usage: tools/mutant_run.sh <patch.diff> <ID> [tier]   -- applies the change to /repo, runs the check, undoes it
patch="$1"; id="$2"; tier="${3:-quick}"
cd /repo || exit 3
if [ -n "$(git status --porcelain --untracked-files=no)" ]; then echo "repo not clean"; exit 3; fi
if ! git apply --3way "$patch" 2>/tmp/mutant_apply.err; then git checkout -q -- . ; git reset -q; echo "MUTANT $id: patch does not apply: $(head -2 /tmp/mutant_apply.err)"; exit 3; fi
git reset -q
start=$(date +%s)
out=$(cd /verif && RNV_OUT_ROOT=/verif/work/mutant-out timeout 3600 bin/check "$id" "$tier" 2>&1)
code=$?
end=$(date +%s)
git -C /repo checkout -q -- .
echo "MUTANT $id ($patch) tier=$tier exit=$code $((end-start))s :: $(echo "$out" | grep -E '^(VIOLATION|OK|KNOWN|INCONCLUSIVE)' | tail -2 | tr '\n' ' ' | cut -c1-300)"
echo "$out" | grep -E "violation detail" | tail -1 | cut -c1-400
