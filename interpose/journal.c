// LD_PRELOAD journal of file mutations under $RNV_ROOT (E5, DESIGN.md section 2).
// Records, in program order and under one lock per mutation: open-with-create/trunc, write,
// pwrite64, writev, ftruncate, rename, unlink. Offsets come from lseek(fd,0,SEEK_CUR) taken
// under the same lock as the write itself (the store keeps two descriptors with independent
// offsets on every log file).
//
// Journal record (little endian): u32 magic 'RNVJ', u32 op, u64 seq, u64 offset, u64 len,
//   u32 path_len, u32 path2_len, path bytes, path2 bytes, data bytes (len bytes for writes)
#define _GNU_SOURCE
#include <dlfcn.h>
#include <fcntl.h>
#include <pthread.h>
#include <stdarg.h>
#include <stdint.h>
#include <stdio.h>
#include <stdlib.h>
#include <string.h>
#include <sys/stat.h>
#include <sys/types.h>
#include <sys/uio.h>
#include <unistd.h>

enum { OP_CREATE = 1, OP_WRITE = 2, OP_TRUNC = 3, OP_RENAME = 4, OP_UNLINK = 5, OP_OPENTRUNC = 6 };

#define MAXFD 4096
static char *fd_path[MAXFD];
static pthread_mutex_t mu = PTHREAD_MUTEX_INITIALIZER;
static int jfd = -1;
static uint64_t seq = 0;
static const char *root = NULL;
static size_t root_len = 0;
static int inited = 0;

static int (*real_open)(const char *, int, ...);
static int (*real_open64)(const char *, int, ...);
static int (*real_openat)(int, const char *, int, ...);
static int (*real_openat64)(int, const char *, int, ...);
static int (*real_creat)(const char *, mode_t);
static ssize_t (*real_write)(int, const void *, size_t);
static ssize_t (*real_pwrite64)(int, const void *, size_t, off64_t);
static ssize_t (*real_pwrite)(int, const void *, size_t, off_t);
static ssize_t (*real_writev)(int, const struct iovec *, int);
static int (*real_ftruncate)(int, off_t);
static int (*real_ftruncate64)(int, off64_t);
static int (*real_rename)(const char *, const char *);
static int (*real_unlink)(const char *);
static int (*real_unlinkat)(int, const char *, int);
static int (*real_close)(int);

static void init_once(void) {
  if (inited) return;
  real_open = dlsym(RTLD_NEXT, "open");
  real_open64 = dlsym(RTLD_NEXT, "open64");
  real_openat = dlsym(RTLD_NEXT, "openat");
  real_openat64 = dlsym(RTLD_NEXT, "openat64");
  real_creat = dlsym(RTLD_NEXT, "creat");
  real_write = dlsym(RTLD_NEXT, "write");
  real_pwrite64 = dlsym(RTLD_NEXT, "pwrite64");
  real_pwrite = dlsym(RTLD_NEXT, "pwrite");
  real_writev = dlsym(RTLD_NEXT, "writev");
  real_ftruncate = dlsym(RTLD_NEXT, "ftruncate");
  real_ftruncate64 = dlsym(RTLD_NEXT, "ftruncate64");
  real_rename = dlsym(RTLD_NEXT, "rename");
  real_unlink = dlsym(RTLD_NEXT, "unlink");
  real_unlinkat = dlsym(RTLD_NEXT, "unlinkat");
  real_close = dlsym(RTLD_NEXT, "close");
  root = getenv("RNV_ROOT");
  if (root) root_len = strlen(root);
  const char *j = getenv("RNV_JOURNAL");
  if (root && j) {
    jfd = real_open64 ? real_open64(j, O_WRONLY | O_CREAT | O_APPEND | O_CLOEXEC, 0644)
                      : real_open(j, O_WRONLY | O_CREAT | O_APPEND | O_CLOEXEC, 0644);
  }
  inited = 1;
}

static int under_root(const char *p) {
  return root && p && strncmp(p, root, root_len) == 0 && (p[root_len] == '/' || p[root_len] == 0);
}

static void jwrite_all(const void *b, size_t n) {
  const char *p = b;
  while (n > 0) {
    ssize_t w = real_write(jfd, p, n);
    if (w <= 0) return;
    p += w;
    n -= (size_t)w;
  }
}

// caller holds mu
static void journal(uint32_t op, const char *path, const char *path2, uint64_t off, uint64_t len,
                    const void *data, size_t data_len) {
  if (jfd < 0) return;
  uint32_t magic = 0x4a564e52u;  // "RNVJ"
  uint32_t pl = path ? (uint32_t)strlen(path) : 0, pl2 = path2 ? (uint32_t)strlen(path2) : 0;
  uint64_t s = seq++;
  size_t total = 4 + 4 + 8 + 8 + 8 + 4 + 4 + pl + pl2 + data_len;
  char *buf = malloc(total);
  if (!buf) return;
  char *q = buf;
  memcpy(q, &magic, 4); q += 4;
  memcpy(q, &op, 4); q += 4;
  memcpy(q, &s, 8); q += 8;
  memcpy(q, &off, 8); q += 8;
  memcpy(q, &len, 8); q += 8;
  memcpy(q, &pl, 4); q += 4;
  memcpy(q, &pl2, 4); q += 4;
  if (pl) { memcpy(q, path, pl); q += pl; }
  if (pl2) { memcpy(q, path2, pl2); q += pl2; }
  if (data_len) { memcpy(q, data, data_len); q += data_len; }
  jwrite_all(buf, total);
  free(buf);
}

static void track(int fd, const char *path) {
  if (fd < 0 || fd >= MAXFD) return;
  free(fd_path[fd]);
  fd_path[fd] = strdup(path);
}

static int do_open(int which, int dirfd, const char *path, int flags, mode_t mode) {
  init_once();
  int tracked = under_root(path) && jfd >= 0;
  int fd;
  if (!tracked) {
    switch (which) {
      case 0: return real_open(path, flags, mode);
      case 1: return real_open64(path, flags, mode);
      case 2: return real_openat(dirfd, path, flags, mode);
      default: return real_openat64(dirfd, path, flags, mode);
    }
  }
  pthread_mutex_lock(&mu);
  struct stat st;
  int existed = (stat(path, &st) == 0);
  switch (which) {
    case 0: fd = real_open(path, flags, mode); break;
    case 1: fd = real_open64(path, flags, mode); break;
    case 2: fd = real_openat(dirfd, path, flags, mode); break;
    default: fd = real_openat64(dirfd, path, flags, mode); break;
  }
  if (fd >= 0) {
    track(fd, path);
    if (!existed && (flags & O_CREAT)) journal(OP_CREATE, path, NULL, 0, 0, NULL, 0);
    else if (existed && (flags & O_TRUNC) && (flags & (O_WRONLY | O_RDWR))) journal(OP_OPENTRUNC, path, NULL, 0, 0, NULL, 0);
  }
  pthread_mutex_unlock(&mu);
  return fd;
}

int open(const char *path, int flags, ...) {
  mode_t mode = 0;
  if (flags & (O_CREAT | O_TMPFILE)) { va_list ap; va_start(ap, flags); mode = va_arg(ap, mode_t); va_end(ap); }
  return do_open(0, AT_FDCWD, path, flags, mode);
}
int open64(const char *path, int flags, ...) {
  mode_t mode = 0;
  if (flags & (O_CREAT | O_TMPFILE)) { va_list ap; va_start(ap, flags); mode = va_arg(ap, mode_t); va_end(ap); }
  return do_open(1, AT_FDCWD, path, flags, mode);
}
int openat(int dirfd, const char *path, int flags, ...) {
  mode_t mode = 0;
  if (flags & (O_CREAT | O_TMPFILE)) { va_list ap; va_start(ap, flags); mode = va_arg(ap, mode_t); va_end(ap); }
  return do_open(2, dirfd, path, flags, mode);
}
int openat64(int dirfd, const char *path, int flags, ...) {
  mode_t mode = 0;
  if (flags & (O_CREAT | O_TMPFILE)) { va_list ap; va_start(ap, flags); mode = va_arg(ap, mode_t); va_end(ap); }
  return do_open(3, dirfd, path, flags, mode);
}
int creat(const char *path, mode_t mode) { return do_open(0, AT_FDCWD, path, O_CREAT | O_WRONLY | O_TRUNC, mode); }

ssize_t write(int fd, const void *buf, size_t n) {
  init_once();
  if (fd < 0 || fd >= MAXFD || !fd_path[fd] || jfd < 0 || fd == jfd) return real_write(fd, buf, n);
  pthread_mutex_lock(&mu);
  off_t off = lseek(fd, 0, SEEK_CUR);
  int fl = fcntl(fd, F_GETFL);
  if (fl >= 0 && (fl & O_APPEND)) { struct stat st; if (fstat(fd, &st) == 0) off = st.st_size; }
  ssize_t w = real_write(fd, buf, n);
  if (w > 0) journal(OP_WRITE, fd_path[fd], NULL, (uint64_t)off, (uint64_t)w, buf, (size_t)w);
  pthread_mutex_unlock(&mu);
  return w;
}

ssize_t pwrite64(int fd, const void *buf, size_t n, off64_t off) {
  init_once();
  if (fd < 0 || fd >= MAXFD || !fd_path[fd] || jfd < 0) return real_pwrite64(fd, buf, n, off);
  pthread_mutex_lock(&mu);
  ssize_t w = real_pwrite64(fd, buf, n, off);
  if (w > 0) journal(OP_WRITE, fd_path[fd], NULL, (uint64_t)off, (uint64_t)w, buf, (size_t)w);
  pthread_mutex_unlock(&mu);
  return w;
}
ssize_t pwrite(int fd, const void *buf, size_t n, off_t off) {
  init_once();
  if (fd < 0 || fd >= MAXFD || !fd_path[fd] || jfd < 0) return real_pwrite(fd, buf, n, off);
  pthread_mutex_lock(&mu);
  ssize_t w = real_pwrite(fd, buf, n, off);
  if (w > 0) journal(OP_WRITE, fd_path[fd], NULL, (uint64_t)off, (uint64_t)w, buf, (size_t)w);
  pthread_mutex_unlock(&mu);
  return w;
}

ssize_t writev(int fd, const struct iovec *iov, int cnt) {
  init_once();
  if (fd < 0 || fd >= MAXFD || !fd_path[fd] || jfd < 0) return real_writev(fd, iov, cnt);
  pthread_mutex_lock(&mu);
  off_t off = lseek(fd, 0, SEEK_CUR);
  ssize_t w = real_writev(fd, iov, cnt);
  if (w > 0) {
    char *tmp = malloc((size_t)w);
    if (tmp) {
      size_t left = (size_t)w, pos = 0;
      for (int i = 0; i < cnt && left > 0; i++) {
        size_t take = iov[i].iov_len < left ? iov[i].iov_len : left;
        memcpy(tmp + pos, iov[i].iov_base, take);
        pos += take; left -= take;
      }
      journal(OP_WRITE, fd_path[fd], NULL, (uint64_t)off, (uint64_t)w, tmp, (size_t)w);
      free(tmp);
    }
  }
  pthread_mutex_unlock(&mu);
  return w;
}

int ftruncate64(int fd, off64_t len) {
  init_once();
  if (fd < 0 || fd >= MAXFD || !fd_path[fd] || jfd < 0) return real_ftruncate64(fd, len);
  pthread_mutex_lock(&mu);
  int r = real_ftruncate64(fd, len);
  if (r == 0) journal(OP_TRUNC, fd_path[fd], NULL, 0, (uint64_t)len, NULL, 0);
  pthread_mutex_unlock(&mu);
  return r;
}
int ftruncate(int fd, off_t len) {
  init_once();
  if (fd < 0 || fd >= MAXFD || !fd_path[fd] || jfd < 0) return real_ftruncate(fd, len);
  pthread_mutex_lock(&mu);
  int r = real_ftruncate(fd, len);
  if (r == 0) journal(OP_TRUNC, fd_path[fd], NULL, 0, (uint64_t)len, NULL, 0);
  pthread_mutex_unlock(&mu);
  return r;
}

int rename(const char *a, const char *b) {
  init_once();
  if (jfd < 0 || !(under_root(a) || under_root(b))) return real_rename(a, b);
  pthread_mutex_lock(&mu);
  int r = real_rename(a, b);
  if (r == 0) journal(OP_RENAME, a, b, 0, 0, NULL, 0);
  pthread_mutex_unlock(&mu);
  return r;
}

int unlink(const char *p) {
  init_once();
  if (jfd < 0 || !under_root(p)) return real_unlink(p);
  pthread_mutex_lock(&mu);
  int r = real_unlink(p);
  if (r == 0) journal(OP_UNLINK, p, NULL, 0, 0, NULL, 0);
  pthread_mutex_unlock(&mu);
  return r;
}
int unlinkat(int dirfd, const char *p, int flags) {
  init_once();
  if (jfd < 0 || !under_root(p)) return real_unlinkat(dirfd, p, flags);
  pthread_mutex_lock(&mu);
  int r = real_unlinkat(dirfd, p, flags);
  if (r == 0 && !(flags & AT_REMOVEDIR)) journal(OP_UNLINK, p, NULL, 0, 0, NULL, 0);
  pthread_mutex_unlock(&mu);
  return r;
}

int close(int fd) {
  init_once();
  if (fd >= 0 && fd < MAXFD && fd_path[fd]) {
    pthread_mutex_lock(&mu);
    free(fd_path[fd]);
    fd_path[fd] = NULL;
    pthread_mutex_unlock(&mu);
  }
  return real_close(fd);
}
